//! Shared vocabulary between the runner and the per-property modules.

use crate::env::{Sim, Swarm, Vector};
use crate::rng::{Digest, Rng};
use serde::de::DeserializeOwned;
use serde::{Deserialize, Serialize};
use std::collections::BTreeMap;

#[derive(Clone, Copy, Debug, PartialEq, Eq)]
pub enum Tier {
    Quick,
    Thorough,
}

impl Tier {
    pub fn name(self) -> &'static str {
        match self {
            Tier::Quick => "quick",
            Tier::Thorough => "thorough",
        }
    }
}

#[derive(Serialize, Deserialize, Clone, Debug, PartialEq)]
pub struct Violation {
    /// violation class, e.g. `step-budget`, `panic`, `patch-partition-mismatch`
    pub class: String,
    /// the library operation at which it was observed
    pub operation: String,
    pub message: String,
    /// indices of the decision vectors involved (one for a model mismatch, two for a
    /// cross-vector disagreement)
    pub vectors: Vec<usize>,
}

impl Violation {
    pub fn new(class: &str, operation: &str, message: String, vectors: &[usize]) -> Self {
        Violation {
            class: class.to_string(),
            operation: operation.to_string(),
            message,
            vectors: vectors.to_vec(),
        }
    }
    pub fn same_kind(&self, other: &Violation) -> bool {
        self.class == other.class && self.operation == other.operation
    }
}

/// Named counters (probes, companion assertions, undetermined comparisons); merged by addition,
/// so the totals do not depend on how runs were distributed over workers.
#[derive(Clone, Debug, Default)]
pub struct Stats {
    pub counters: BTreeMap<String, u64>,
    /// running maxima of measured quantities (merged by max, so worker-count independent)
    pub maxima: BTreeMap<String, f64>,
}

impl Stats {
    pub fn bump(&mut self, key: &str) {
        self.add(key, 1);
    }
    pub fn add(&mut self, key: &str, n: u64) {
        if n > 0 {
            *self.counters.entry(key.to_string()).or_insert(0) += n;
        } else {
            self.counters.entry(key.to_string()).or_insert(0);
        }
    }
    pub fn merge(&mut self, o: &Stats) {
        for (k, v) in &o.counters {
            *self.counters.entry(k.clone()).or_insert(0) += v;
        }
        for (k, v) in &o.maxima {
            self.max_f(k, *v);
        }
    }
    pub fn max_f(&mut self, key: &str, v: f64) {
        if v.is_finite() {
            let e = self.maxima.entry(key.to_string()).or_insert(v);
            if v > *e {
                *e = v;
            }
        }
    }
    pub fn get(&self, key: &str) -> u64 {
        self.counters.get(key).copied().unwrap_or(0)
    }
}

/// What one decision vector of one scenario produced.
pub struct VectorRun<O> {
    pub obs: O,
    pub consumed: Vector,
    pub ticks: u64,
}

pub trait Property: Sync {
    type Scenario: Serialize + DeserializeOwned + Clone + Send + 'static;
    type Obs: Send + 'static;

    fn id(&self) -> &'static str;

    /// Number of runs for a tier (fixed, so that a check is a function of the seed).
    fn runs(&self, tier: Tier) -> u64;

    fn generate(&self, rng: &mut Rng, tier: Tier) -> Self::Scenario;

    /// Decision-generator configuration for this run.
    fn swarm(&self, rng: &mut Rng, sc: &Self::Scenario) -> Swarm;

    /// How many decision vectors this scenario is executed under.
    fn vectors(&self, rng: &mut Rng, tier: Tier, sc: &Self::Scenario) -> usize;

    /// Run the real code under the installed environment. Must not judge.
    fn execute(&self, sc: &Self::Scenario, sim: &Sim) -> Self::Obs;

    /// Compare observations with the reference model and with each other.
    fn judge(
        &self,
        sc: &Self::Scenario,
        runs: &[VectorRun<Self::Obs>],
        stats: &mut Stats,
    ) -> Vec<Violation>;

    /// Digest of the raw, un-canonicalised output (to count distinct behaviours per scenario).
    fn raw_digest(&self, obs: &Self::Obs) -> Digest;

    /// Strictly simpler candidate scenarios for delta debugging.
    fn shrink(&self, sc: &Self::Scenario) -> Vec<Self::Scenario>;

    /// Is the scenario inside the property's domain (what the generators are allowed to produce)?
    /// The minimiser only accepts candidates for which this holds, so a minimised replay file is
    /// never an input on which correct code may fail too.
    fn valid(&self, _sc: &Self::Scenario) -> bool {
        true
    }

    /// Structural predicates satisfied by this (minimised) scenario / violation, used to
    /// recognise listed known findings.
    fn fingerprints(&self, sc: &Self::Scenario, v: &Violation) -> Vec<String>;

    /// Whether the scenario counts as non-trivial for the evidence.
    fn nontrivial(&self, sc: &Self::Scenario) -> bool;

    fn rule(&self) -> String;

    fn components(&self) -> serde_json::Value;

    fn assumptions(&self) -> Vec<String>;
}

pub fn scenario_digest<S: Serialize>(sc: &S) -> Digest {
    let mut d = Digest::new();
    d.str(&serde_json::to_string(sc).expect("scenario serialises"));
    d
}
