//! C15 — spatial search, sampling and hulls agree with exhaustive computation.
//!
//! Simulated clauses: `Mesh::sample_uniform` / `sample_poisson` (every random word is a decision,
//! including injected extremes) and `sample_poisson_disk` under simulator-chosen visiting orders.
//! Everything else (k-d tree queries, dense sampling, hull functions) is a *companion assertion*:
//! evaluated on the same generated data, reported separately, never counted as a simulated run.

use crate::c12::to_mesh;
use crate::core::*;
use crate::env::{OpResult, Sim, Swarm};
use crate::meshgen::*;
use crate::rng::{Digest, Rng};
use engeom::common::kd_tree::{KdTree, KdTreeSearch, PartialKdTree};
use engeom::common::poisson_disk::sample_poisson_disk;
use engeom::geom2::hull;
use engeom::{AngleDir, Point2, SurfacePoint3};
use parry3d_f64::na::Point;
use serde::{Deserialize, Serialize};
use serde_json::json;
use std::collections::{BTreeMap, BTreeSet};
use std::num::NonZero;

pub struct C15;

#[derive(Serialize, Deserialize, Clone, Debug)]
pub enum Sc {
    Uniform { label: String, mesh: M, n: usize, fault_rate: f64 },
    PoissonMesh { label: String, mesh: M, radius: f64, fault_rate: f64 },
    Dense { label: String, mesh: M, spacing: f64 },
    Points {
        label: String,
        dim: usize,
        pts: Vec<[f64; 3]>,
        order: Vec<usize>,
        radius: f64,
        queries: Vec<[f64; 3]>,
        k: usize,
        subset: Vec<usize>,
    },
    Hull {
        label: String,
        pts: Vec<[f64; 2]>,
        polygon: bool,
        /// ball pivoting around the outside: (radius, counter-clockwise?)
        #[serde(default)]
        pivot: Option<(f64, bool)>,
        /// 0: start on the convex hull, end on repeat; 1: start on a given hull vertex (the
        /// library looks for a free direction itself), end on repeat; 2: start on a given hull
        /// vertex, end on another given vertex; 3: start on the given index with the ball placed
        /// along an axis (the third number picks +y, -y, +x, -x), end on repeat
        #[serde(default)]
        pivot_mode: (u8, usize, usize),
    },
}

type Sp = ([f64; 3], [f64; 3]);

pub struct PointsObs {
    pub poisson: OpResult<Vec<usize>>,
    pub nearest_one: OpResult<Vec<(usize, f64)>>,
    pub nearest_k: OpResult<Vec<Vec<(usize, f64)>>>,
    pub within: OpResult<Vec<Vec<(usize, f64)>>>,
    pub p_nearest_one: OpResult<Vec<(usize, f64)>>,
    pub p_nearest_k: OpResult<Vec<Vec<(usize, f64)>>>,
    pub p_within: OpResult<Vec<Vec<(usize, f64)>>>,
    /// (len, is_empty) of the full and of the partial tree
    pub sizes: Option<[(usize, bool); 2]>,
}

pub struct HullObs {
    pub hull: OpResult<Vec<usize>>,
    /// (i, j, hull polygon points)
    pub far: OpResult<Option<(usize, usize, Vec<[f64; 2]>)>>,
    pub ccw: OpResult<bool>,
    /// Ok((indices, centres)) or the error text
    pub pivot: Option<OpResult<Result<(Vec<usize>, Vec<[f64; 2]>), String>>>,
    /// mode 2 only: the same start ended on the first repeat (gives the state after the first
    /// step, from which the reference pivot continues)
    pub pivot_repeat: Option<OpResult<Result<(Vec<usize>, Vec<[f64; 2]>), String>>>,
}

pub enum Obs {
    Samples(OpResult<Vec<Sp>>),
    Points(Box<PointsObs>),
    Hull(Box<HullObs>),
    Construct(String),
}

fn sp(s: &SurfacePoint3) -> Sp {
    ([s.point.x, s.point.y, s.point.z], [s.normal.x, s.normal.y, s.normal.z])
}

// ---------------------------------------------------------------------------------------------
// generators

fn gen_sampling_mesh(rng: &mut Rng, max_faces: usize) -> (String, M) {
    loop {
        let (label, mut m): (String, M) = match rng.below(6) {
            0 => ("box".into(), cuboid(rng.log_uniform(0.2, 5.0), rng.log_uniform(0.2, 5.0), rng.log_uniform(0.2, 5.0))),
            1 => {
                let around = 3 + rng.below(12);
                ("tube".into(), tube(around, 1 + rng.below(3), rng.uniform(0.3, 2.0), rng.uniform(0.5, 3.0)))
            }
            2 => {
                let nx = 1 + rng.below(5);
                let ny = 1 + rng.below(5);
                let cell = rng.log_uniform(0.1, 2.0);
                let mut g = grid(rng, nx, ny, cell, 0.3, &|_, _| true);
                let a = rng.uniform(0.0, 0.5);
                for p in g.v.iter_mut() {
                    p[2] = a * (p[0] * 1.7).sin() * (p[1] * 1.1).cos();
                }
                ("height-field".into(), g)
            }
            3 => {
                // face areas spanning several orders of magnitude (slivers included)
                let n = 1 + rng.below(8);
                let mut v = Vec::new();
                let mut f = Vec::new();
                // sometimes one face (never the last one) is microscopic but perfectly valid: side
                // 1e-6, area 5e-13 - a sliver from a tessellator, or a mesh in very small units
                let micro = if n >= 2 && rng.chance(0.35) { Some(rng.below(n - 1)) } else { None };
                for i in 0..n {
                    let s = if micro == Some(i) { 1e-6 } else { rng.log_uniform(0.01, 1.0) };
                    let o = [i as f64 * 2.0, rng.uniform(-1.0, 1.0), rng.uniform(-1.0, 1.0)];
                    let thin = if rng.chance(0.4) { rng.log_uniform(0.01, 0.3) } else { 1.0 };
                    let b = v.len() as u32;
                    v.push(o);
                    v.push(add(o, [s, 0.0, rng.uniform(-0.2, 0.2) * s]));
                    v.push(add(o, [rng.uniform(0.0, 1.0) * s, s * thin, rng.uniform(-0.2, 0.2) * s]));
                    f.push([b, b + 1, b + 2]);
                }
                ("mixed-areas".into(), M { v, f })
            }
            4 => {
                let mut m = octahedron();
                for _ in 0..rng.below(2) {
                    m = subdivide(&m, true);
                }
                ("sphere".into(), m)
            }
            _ => ("single-triangle".into(), M { v: vec![[0.0, 0.0, 0.0], [rng.log_uniform(0.1, 3.0), 0.0, 0.0], [rng.uniform(-1.0, 1.0), rng.log_uniform(0.05, 3.0), 0.0]], f: vec![[0, 1, 2]] }),
        };
        if m.f.len() > max_faces {
            continue;
        }
        if rng.chance(0.6) {
            let size = m.size();
            let pose = Pose::random(rng, 20.0 * size);
            m = pose.apply_mesh(&m);
        }
        if rng.chance(0.5) {
            shuffle_faces(rng, &mut m);
            rotate_triples(rng, &mut m);
        }
        // the length unit is arbitrary (bounded below so that every face keeps an area above
        // 1e-13; parry treats a cross product below f64::EPSILON as "no normal")
        let min_area = (0..m.f.len()).map(|i| m.area(i)).fold(f64::INFINITY, f64::min);
        let mut label = label;
        if rng.chance(0.3) && min_area > 0.0 {
            let lowest = (1e-13 / min_area).sqrt().max(1e-5);
            let sc = rng.log_uniform(lowest, lowest.max(1e4));
            for p in m.v.iter_mut() {
                *p = scale(*p, sc);
            }
            label.push_str("+scaled");
        }
        let s = m.size();
        // no face may be degenerate by parry's standard; thin-but-valid faces are wanted
        if (0..m.f.len()).all(|i| {
            let t = m.tri(i);
            let (e1, e2) = (sub(t[1], t[0]), sub(t[2], t[0]));
            m.area(i) > 1e-13 && norm(cross(e1, e2)) > 1e-4 * norm(e1) * norm(e2)
        }) && s.is_finite()
        {
            return (label, m);
        }
    }
}

fn gen_points(rng: &mut Rng, tier: Tier) -> Sc {
    let dim = if rng.chance(0.5) { 2 } else { 3 };
    let max_n = if tier == Tier::Quick { 1500 } else { 12000 };
    // deep trees matter for tied data (whole groups of copies sitting on several split planes)
    let max_n_tied = 12000;
    let n = match rng.below(4) {
        0 => 1 + rng.below(12),
        1 => 1 + rng.below(200),
        _ => 1 + rng.below(max_n),
    };
    let mut pts: Vec<[f64; 3]> = Vec::new();
    let label;
    let spacing;
    match rng.below(5) {
        0 => {
            label = "uniform";
            let side = rng.log_uniform(0.5, 50.0);
            for _ in 0..n {
                pts.push([rng.uniform(0.0, side), rng.uniform(0.0, side), if dim == 3 { rng.uniform(0.0, side) } else { 0.0 }]);
            }
            spacing = side / (n as f64).powf(1.0 / dim as f64);
        }
        1 => {
            label = "clustered";
            let nc = 1 + rng.below(5);
            let centres: Vec<[f64; 3]> = (0..nc).map(|_| [rng.uniform(0.0, 10.0), rng.uniform(0.0, 10.0), if dim == 3 { rng.uniform(0.0, 10.0) } else { 0.0 }]).collect();
            let sd = rng.log_uniform(0.01, 1.0);
            for _ in 0..n {
                let c = *rng.pick(&centres);
                pts.push([c[0] + sd * rng.normal(), c[1] + sd * rng.normal(), if dim == 3 { c[2] + sd * rng.normal() } else { 0.0 }]);
            }
            spacing = sd;
        }
        2 => {
            label = "lattice";
            // exact lattice: ties at exactly the spacing, many equal coordinates per axis
            let s = *rng.pick(&[1.0, 0.5, 0.25, 0.1, 0.3]);
            let side = ((n as f64).powf(1.0 / dim as f64).ceil() as usize).max(1);
            'outer: for i in 0..side {
                for j in 0..side {
                    for k in 0..(if dim == 3 { side } else { 1 }) {
                        pts.push([i as f64 * s, j as f64 * s, k as f64 * s]);
                        if pts.len() >= n {
                            break 'outer;
                        }
                    }
                }
            }
            spacing = s;
        }
        3 => {
            label = "duplicated";
            let n = if rng.chance(0.5) { 1 + rng.below(max_n_tied) } else { n };
            // few locations with many copies each (leaves far beyond one chunk, whole groups tied
            // at one distance), or many locations with a few copies
            let base = if rng.chance(0.5) { 1 + rng.below(6) } else { 1 + rng.below(n.min(60)) };
            let side = 10.0;
            let b: Vec<[f64; 3]> = (0..base).map(|_| [rng.uniform(0.0, side), rng.uniform(0.0, side), if dim == 3 { rng.uniform(0.0, side) } else { 0.0 }]).collect();
            for _ in 0..n {
                pts.push(*rng.pick(&b));
            }
            spacing = side / (base as f64).powf(1.0 / dim as f64);
        }
        _ if rng.chance(0.4) => {
            label = "staggered-rows";
            // one coordinate strictly increasing, another cycling through a few values: ties on
            // the second axis only between points that are not neighbours along the first
            let rows = 2 + rng.below(5);
            let step = *rng.pick(&[0.5, 0.25, 1.0]);
            for i in 0..n {
                pts.push([i as f64 * step, (i % rows) as f64, if dim == 3 { ((i / rows) % 2) as f64 } else { 0.0 }]);
            }
            spacing = step;
        }
        _ => {
            label = "axis-ties";
            // many points share one coordinate (long rows), the shape sample_dense produces
            let rows = 1 + rng.below(6);
            for i in 0..n {
                let r = i % rows;
                pts.push([r as f64 * 0.5, rng.uniform(0.0, 10.0), if dim == 3 { (r % 2) as f64 } else { 0.0 }]);
            }
            spacing = 10.0 * rows as f64 / n as f64;
        }
    }
    rng.shuffle(&mut pts);
    let n = pts.len();
    // which axis carries the ties is arbitrary as well: permute the axes
    if rng.chance(0.5) {
        let shift = 1 + rng.below(dim - 1);
        for p in pts.iter_mut() {
            let q = *p;
            for k in 0..dim {
                p[(k + shift) % dim] = q[k];
            }
        }
    }
    // the length unit is arbitrary (power of two: lattice ties stay exact)
    let unit_scale = if rng.chance(0.3) { 2f64.powi(rng.range(-20, 20) as i32) } else { 1.0 };
    for p in pts.iter_mut() {
        *p = [p[0] * unit_scale, p[1] * unit_scale, p[2] * unit_scale];
    }
    let spacing = spacing * unit_scale;
    // working indices: all or a subset, in a simulator-chosen visiting order
    let mut order: Vec<usize> = if rng.chance(0.7) { (0..n).collect() } else { (0..n).filter(|_| rng.chance(0.6)).collect() };
    if order.is_empty() {
        order.push(rng.below(n));
    }
    match rng.below(4) {
        0 => {}
        1 => order.reverse(),
        2 => rng.shuffle(&mut order),
        _ => {
            let ax = rng.below(dim);
            order.sort_by(|&a, &b| pts[a][ax].partial_cmp(&pts[b][ax]).unwrap().then(a.cmp(&b)));
        }
    }
    let radius = match rng.below(16) {
        0 | 1 | 2 | 3 => spacing, // exactly the lattice spacing: ties at r
        4 | 5 | 6 | 7 => spacing * 2f64.sqrt(),
        // extremes: a radius that only exact duplicates fall inside, and one that swallows everything
        // (not below 1e-150: the library compares squared distances, and a radius whose square
        // underflows to zero is outside the tested domain)
        8 => *rng.pick(&[1e-17, 1e-100, 1e-30, 1e-12]),
        9 => spacing * 1e6,
        _ => spacing * rng.log_uniform(0.3, 4.0),
    };
    let nq = 4 + rng.below(if tier == Tier::Quick { 12 } else { 40 });
    let mut queries = Vec::new();
    for _ in 0..nq {
        if rng.chance(0.5) {
            queries.push(*rng.pick(&pts));
        } else {
            let p = *rng.pick(&pts);
            queries.push([p[0] + radius * rng.normal(), p[1] + radius * rng.normal(), if dim == 3 { p[2] + radius * rng.normal() } else { 0.0 }]);
        }
    }
    let kmax = *rng.pick(&[3usize, 10, 50, 200]);
    let k = 1 + rng.below(kmax);
    // a proper subset, or sometimes every index once (in any order: still "index-remapped")
    let mut subset: Vec<usize> = if rng.chance(0.15) { (0..n).collect() } else { (0..n).filter(|_| rng.chance(0.5)).collect() };
    // "all index subsets" includes the empty one: a tree over no points answers every radius and
    // k-nearest query with nothing (nearest_one has no answer to give and is not asked)
    if rng.chance(0.02) {
        subset.clear();
    } else if subset.is_empty() {
        subset.push(rng.below(n));
    }
    rng.shuffle(&mut subset);
    Sc::Points { label: label.into(), dim, pts, order, radius, queries, k, subset }
}

fn gen_hull(rng: &mut Rng, tier: Tier) -> Sc {
    let max_n = if tier == Tier::Quick { 200 } else { 2000 };
    if rng.chance(0.12) {
        // star with three far spikes: the convex hull is a triangle, the polygon has many vertices
        let inner = 3 * (1 + rng.below(6));
        let n = 3 + inner;
        let c = [rng.uniform(-5.0, 5.0), rng.uniform(-5.0, 5.0)];
        let rot = rng.uniform(0.0, std::f64::consts::TAU);
        let mut pts: Vec<[f64; 2]> = Vec::new();
        let per = inner / 3;
        for s in 0..3 {
            let a0 = rot + s as f64 * std::f64::consts::TAU / 3.0;
            pts.push([c[0] + 3.0 * a0.cos(), c[1] + 3.0 * a0.sin()]);
            for j in 0..per {
                let a = a0 + (j + 1) as f64 / (per + 1) as f64 * std::f64::consts::TAU / 3.0;
                let r = rng.uniform(0.3, 0.9);
                pts.push([c[0] + r * a.cos(), c[1] + r * a.sin()]);
            }
        }
        debug_assert_eq!(pts.len(), n);
        if rng.chance(0.5) {
            pts.reverse();
        }
        let s = rng.below(pts.len());
        pts.rotate_left(s);
        return Sc::Hull { label: "three-spike-star".into(), pts, polygon: true, pivot: None, pivot_mode: (0, 0, 0) };
    }
    if rng.chance(0.4) {
        // simple (star-shaped) polygon given in order, either direction, any start vertex
        let n = 3 + rng.below(60);
        let c = [rng.uniform(-5.0, 5.0), rng.uniform(-5.0, 5.0)];
        let mut angs: Vec<f64> = (0..n).map(|i| (i as f64 + rng.uniform(0.1, 0.9)) / n as f64 * std::f64::consts::TAU).collect();
        angs.sort_by(|a, b| a.partial_cmp(b).unwrap());
        let mut pts: Vec<[f64; 2]> = angs.iter().map(|&a| {
            let r = rng.uniform(0.5, 2.0);
            [c[0] + r * a.cos(), c[1] + r * a.sin()]
        }).collect();
        if rng.chance(0.5) {
            pts.reverse();
        }
        let s = rng.below(n);
        pts.rotate_left(s);
        return Sc::Hull { label: "star-polygon".into(), pts, polygon: true, pivot: None, pivot_mode: (0, 0, 0) };
    }
    if rng.chance(0.08) {
        // points in drawing order along a closed curve that goes round more than once: a star
        // polygon {n/k} in drawing order, or a spiral scan of one and a half to three turns. Every
        // corner turns the same way, yet the trace is not a convex polygon.
        let n = 5 + rng.below(40);
        let c = [rng.uniform(-5.0, 5.0), rng.uniform(-5.0, 5.0)];
        let rot = rng.uniform(0.0, std::f64::consts::TAU);
        let r0 = rng.log_uniform(0.1, 100.0);
        let mut pts: Vec<[f64; 2]> = Vec::new();
        let label;
        if rng.chance(0.5) {
            label = "star-polygon-in-drawing-order";
            // 2 <= k <= (n - 1) / 2: never the degenerate {n / (n/2)}, which is a line
            let k = 2 + rng.below((n - 1) / 2 - 1).min(4);
            for i in 0..n {
                let a = rot + (i * k) as f64 / n as f64 * std::f64::consts::TAU;
                let r = r0 * (1.0 + 0.02 * rng.uniform(-1.0, 1.0));
                pts.push([c[0] + r * a.cos(), c[1] + r * a.sin()]);
            }
        } else {
            label = "spiral-scan";
            let turns = rng.uniform(1.3, 3.0);
            let grow = rng.uniform(0.0, 0.5);
            for i in 0..n {
                let t = i as f64 / n as f64;
                let a = rot + t * turns * std::f64::consts::TAU;
                let r = r0 * (1.0 + grow * t);
                pts.push([c[0] + r * a.cos(), c[1] + r * a.sin()]);
            }
        }
        if rng.chance(0.3) {
            pts.reverse();
        }
        return Sc::Hull { label: label.into(), pts, polygon: false, pivot: None, pivot_mode: (0, 0, 0) };
    }
    if rng.chance(0.1) {
        // open chains and antennas: nearly every point is on the outline and the ball comes back
        // along the other side, so a pivot path may visit points twice and be longer than the
        // number of points
        let n = 4 + rng.below(28);
        let step = rng.log_uniform(0.1, 10.0);
        let mut heading = rng.uniform(0.0, std::f64::consts::TAU);
        let mut p = [rng.uniform(-5.0, 5.0), rng.uniform(-5.0, 5.0)];
        let bend = rng.uniform(0.05, 0.5);
        let mut pts: Vec<[f64; 2]> = Vec::new();
        for _ in 0..n {
            pts.push(p);
            heading += rng.uniform(-bend, bend);
            let s = step * rng.uniform(0.7, 1.3);
            p = [p[0] + s * heading.cos(), p[1] + s * heading.sin()];
        }
        let mut label = "open-chain";
        if rng.chance(0.3) {
            // a blob at one end
            label = "antenna";
            let o = pts[0];
            for _ in 0..3 + rng.below(12) {
                pts.push([o[0] + 2.0 * step * rng.normal(), o[1] + 2.0 * step * rng.normal()]);
            }
        }
        let radius = step * rng.uniform(0.8, 3.0);
        let chain_len = n;
        let (mut a, mut b) = (rng.below(chain_len), rng.below(chain_len));
        if rng.chance(0.4) {
            // along the whole chain
            b = if rng.chance(0.5) { 0 } else { chain_len - 1 };
        }
        if rng.chance(0.5) {
            // any numbering
            let mut perm: Vec<usize> = (0..pts.len()).collect();
            rng.shuffle(&mut perm);
            let mut q = vec![[0.0; 2]; pts.len()];
            for (i, &t) in perm.iter().enumerate() {
                q[t] = pts[i];
            }
            pts = q;
            a = perm[a];
            b = perm[b];
        }
        let mode = if rng.chance(0.75) { 2u8 } else { 1 };
        return Sc::Hull { label: label.into(), pts, polygon: false, pivot: Some((radius, rng.chance(0.5))), pivot_mode: (mode, a, b) };
    }
    if rng.chance(0.04) {
        if let Some(sc) = gen_exact_half_turn(rng) {
            return sc;
        }
    }
    if rng.chance(if tier == Tier::Quick { 0.004 } else { 0.002 }) {
        // a very large cloud whose size is a whisker over a multiple of a power of two, with an
        // extreme point among the last few entries (block-wise reductions lose exactly those)
        let block = *rng.pick(&[4096usize, 8192, 16384]);
        let n = block * (1 + rng.below(2)) + 1 + rng.below(3);
        let mut pts: Vec<[f64; 2]> = (0..n).map(|_| [rng.uniform(-1.0, 1.0), rng.uniform(-1.0, 1.0)]).collect();
        let last = pts.len() - 1 - rng.below(2);
        let a = rng.uniform(0.0, std::f64::consts::TAU);
        pts[last] = [5.0 * a.cos(), 5.0 * a.sin()];
        return Sc::Hull { label: "huge-cloud".into(), pts, polygon: false, pivot: None, pivot_mode: (0, 0, 0) };
    }
    if rng.chance(0.3) {
        // sector / Reuleaux-like outlines: from one vertex a whole run of vertices is almost
        // equally far away, so the distance along the hull has several near-equal local maxima
        let m = 3 + rng.below(18);
        let span = rng.uniform(0.15, 1.4);
        let rot = rng.uniform(0.0, std::f64::consts::TAU);
        let r0 = rng.log_uniform(0.1, 100.0);
        let wobble = *rng.pick(&[0.0, 1e-3, 5e-3, 3e-2]);
        let c = [rng.uniform(-5.0, 5.0), rng.uniform(-5.0, 5.0)];
        let mirror = if rng.chance(0.5) { -1.0 } else { 1.0 };
        let mut pts = vec![c];
        for i in 0..m {
            let a = rot + mirror * span * i as f64 / (m - 1).max(1) as f64;
            let r = r0 * (1.0 + wobble * rng.uniform(-1.0, 1.0));
            pts.push([c[0] + r * a.cos(), c[1] + r * a.sin()]);
        }
        // a few interior points do not change the hull
        for _ in 0..rng.below(4) {
            let a = rot + mirror * span * rng.f64();
            let r = r0 * rng.uniform(0.1, 0.8);
            pts.push([c[0] + r * a.cos(), c[1] + r * a.sin()]);
        }
        rng.shuffle(&mut pts);
        return Sc::Hull { label: "sector".into(), pts, polygon: false, pivot: None, pivot_mode: (0, 0, 0) };
    }
    let n = 4 + rng.below(max_n);
    let mut pts = Vec::new();
    let label;
    match rng.below(3) {
        0 => {
            label = "uniform";
            for _ in 0..n {
                pts.push([rng.uniform(-10.0, 10.0), rng.uniform(-10.0, 10.0)]);
            }
        }
        1 => {
            label = "gaussian";
            let s = rng.log_uniform(0.1, 100.0);
            for _ in 0..n {
                pts.push([s * rng.normal(), s * rng.normal()]);
            }
        }
        _ => {
            label = "on-circle";
            let r = rng.log_uniform(0.1, 100.0);
            for _ in 0..n {
                let a = rng.uniform(0.0, std::f64::consts::TAU);
                let rr = if rng.chance(0.7) { r } else { r * rng.uniform(0.0, 1.0) };
                pts.push([rr * a.cos(), rr * a.sin()]);
            }
        }
    }
    // the length unit is arbitrary (the library's own absolute tolerances, 1e-10 in the circle
    // intersection, put a floor under it: nothing below 1e-6 is generated)
    if rng.chance(0.3) {
        let mut sc = *rng.pick(&[1e-6, 1e-3, 1e3, 1e6]);
        // the floor is on the unit the cloud ends up with: a cloud whose own spread is below one
        // (gaussian or on-circle with a scale under 1) would be carried below it by 1e-6
        let spread = pts.iter().fold(0.0f64, |a, p| a.max(p[0].abs()).max(p[1].abs()));
        if sc * spread < 1e-5 {
            sc = 1e-3;
        }
        for p in pts.iter_mut() {
            *p = [p[0] * sc, p[1] * sc];
        }
    }
    // ball pivoting: generic (tie-free) clouds only, radius a few mean spacings
    let pivot = if label != "on-circle" && rng.chance(0.7) {
        let (mut lo, mut hi) = ([f64::INFINITY; 2], [f64::NEG_INFINITY; 2]);
        for p in &pts {
            for k in 0..2 {
                lo[k] = lo[k].min(p[k]);
                hi[k] = hi[k].max(p[k]);
            }
        }
        let spacing = (((hi[0] - lo[0]) * (hi[1] - lo[1])).max(1e-12) / pts.len() as f64).sqrt();
        Some((spacing * rng.log_uniform(1.0, 20.0), rng.chance(0.5)))
    } else {
        None
    };
    // start / end vertices for the other pivot modes: extreme points are hull vertices
    let extreme = |k: usize, sign: f64| -> usize {
        let mut best = 0;
        for (i, p) in pts.iter().enumerate() {
            if sign * p[k] > sign * pts[best][k] {
                best = i;
            }
        }
        best
    };
    let pivot_mode = match rng.below(3) {
        0 => (0u8, 0usize, 0usize),
        1 => (1, extreme(rng.below(2), if rng.chance(0.5) { 1.0 } else { -1.0 }), 0),
        _ => (2, extreme(0, 1.0), extreme(0, -1.0)),
    };
    Sc::Hull { label: label.into(), pts, polygon: false, pivot, pivot_mode }
}

// ---------------------------------------------------------------------------------------------
// oracles

/// For each sample: the faces it lies on (within the band) with a matching normal.
fn faces_of_sample(m: &M, normals: &[Option<[f64; 3]>], s: &Sp, band: f64) -> Vec<usize> {
    let mut out = Vec::new();
    for i in 0..m.f.len() {
        if let Some(n) = normals[i] {
            if dist3(n, s.1) <= 1e-9 && point_triangle_distance(s.0, &m.tri(i)) <= band {
                out.push(i);
            }
        }
    }
    out
}

fn check_on_surface(m: &M, samples: &[Sp], op: &str, vi: usize, out: &mut Vec<Violation>) -> Option<Vec<Vec<usize>>> {
    let normals: Vec<Option<[f64; 3]>> = (0..m.f.len()).map(|i| m.normal(i)).collect();
    let reach = m.v.iter().fold(0.0f64, |a, p| a.max(norm(*p)));
    let band = 1e-9 * m.size() + 1e-13 * reach;
    let mut all = Vec::with_capacity(samples.len());
    for (si, s) in samples.iter().enumerate() {
        if !(s.0.iter().all(|x| x.is_finite()) && s.1.iter().all(|x| x.is_finite())) {
            out.push(Violation::new("sample-not-finite", op, format!("sample {} is {:?}", si, s), &[vi]));
            return None;
        }
        let fs = faces_of_sample(m, &normals, s, band);
        if fs.is_empty() {
            let nearest = (0..m.f.len()).map(|i| point_triangle_distance(s.0, &m.tri(i))).fold(f64::INFINITY, f64::min);
            out.push(Violation::new(
                "sample-off-surface",
                op,
                format!("sample {} at {:?} with normal {:?} lies on no face carrying that normal (distance to the surface {:.3e}, band {:.1e})", si, s.0, s.1, nearest, band),
                &[vi],
            ));
            return None;
        }
        all.push(fs);
    }
    Some(all)
}

fn dist_n(a: &[f64; 3], b: &[f64; 3], dim: usize) -> f64 {
    let mut s = 0.0;
    for k in 0..dim {
        s += (a[k] - b[k]) * (a[k] - b[k]);
    }
    s.sqrt()
}

fn close(a: f64, b: f64) -> bool {
    (a - b).abs() <= 1e-12 * a.abs().max(b.abs()) + 1e-300
}

/// k-d tree answers against a linear scan. `universe` = indices the tree was built from.
#[allow(clippy::too_many_arguments)]
fn check_kd(
    name: &str,
    pts: &[[f64; 3]],
    dim: usize,
    universe: &[usize],
    queries: &[[f64; 3]],
    k: usize,
    radius: f64,
    one: &OpResult<Vec<(usize, f64)>>,
    kn: &OpResult<Vec<Vec<(usize, f64)>>>,
    wi: &OpResult<Vec<Vec<(usize, f64)>>>,
    stats: &mut Stats,
    out: &mut Vec<Violation>,
) {
    let members: BTreeSet<usize> = universe.iter().copied().collect();
    let scan = |q: &[f64; 3]| -> Vec<(f64, usize)> {
        let mut v: Vec<(f64, usize)> = universe.iter().map(|&i| (dist_n(&pts[i], q, dim), i)).collect();
        v.sort_by(|a, b| a.0.partial_cmp(&b.0).unwrap().then(a.1.cmp(&b.1)));
        v
    };
    let op1 = format!("{}::nearest_one", name);
    let opk = format!("{}::nearest", name);
    let opw = format!("{}::within", name);
    match one {
        OpResult::Panic(m) => out.push(Violation::new("panic", &op1, m.clone(), &[0])),
        OpResult::Budget(_) => {}
        OpResult::Done(res) => {
            for (q, (i, d)) in queries.iter().zip(res.iter()) {
                stats.bump("companion:kd-nearest-one");
                let s = scan(q);
                if !members.contains(i) {
                    out.push(Violation::new("kd-wrong-index", &op1, format!("returned index {} is not an index of the tree's points", i), &[0]));
                    break;
                }
                let real = dist_n(&pts[*i], q, dim);
                if !close(*d, s[0].0) {
                    out.push(Violation::new("kd-wrong-distance", &op1, format!("nearest to {:?} reported at {} but the closest point is {} away", q, d, s[0].0), &[0]));
                    break;
                }
                if !close(real, *d) {
                    out.push(Violation::new("kd-wrong-index", &op1, format!("point {} is {} from the query, reported distance {}", i, real, d), &[0]));
                    break;
                }
            }
        }
    }
    match kn {
        OpResult::Panic(m) => out.push(Violation::new("panic", &opk, m.clone(), &[0])),
        OpResult::Budget(_) => {}
        OpResult::Done(res) => {
            'q: for (q, list) in queries.iter().zip(res.iter()) {
                stats.bump("companion:kd-nearest-k");
                let s = scan(q);
                let want = k.min(universe.len());
                if list.len() != want {
                    out.push(Violation::new("kd-wrong-count", &opk, format!("asked for {} of {} points, got {}", k, universe.len(), list.len()), &[0]));
                    break;
                }
                let mut seen = BTreeSet::new();
                let mut ds: Vec<f64> = list.iter().map(|x| x.1).collect();
                ds.sort_by(|a, b| a.partial_cmp(b).unwrap());
                for (j, (i, d)) in list.iter().enumerate() {
                    if !members.contains(i) || !seen.insert(*i) {
                        out.push(Violation::new("kd-wrong-index", &opk, format!("index {} is repeated or not one of the tree's points", i), &[0]));
                        break 'q;
                    }
                    let real = dist_n(&pts[*i], q, dim);
                    if !close(real, *d) {
                        out.push(Violation::new("kd-wrong-index", &opk, format!("neighbour {} of query {:?}: point {} is {} away but reported at {}", j, q, i, real, d), &[0]));
                        break 'q;
                    }
                    if !close(ds[j], s[j].0) {
                        out.push(Violation::new("kd-wrong-distance", &opk, format!("{}-th nearest distance reported {} but the linear scan gives {}", j, ds[j], s[j].0), &[0]));
                        break 'q;
                    }
                }
            }
        }
    }
    match wi {
        OpResult::Panic(m) => out.push(Violation::new("panic", &opw, m.clone(), &[0])),
        OpResult::Budget(_) => {}
        OpResult::Done(res) => {
            let band = 1e-9 * radius;
            'q: for (q, list) in queries.iter().zip(res.iter()) {
                stats.bump("companion:kd-within");
                let mut seen = BTreeSet::new();
                for (i, d) in list {
                    if !members.contains(i) || !seen.insert(*i) {
                        out.push(Violation::new("kd-wrong-index", &opw, format!("index {} is repeated or not one of the tree's points", i), &[0]));
                        break 'q;
                    }
                    let real = dist_n(&pts[*i], q, dim);
                    if !close(real, *d) {
                        out.push(Violation::new("kd-wrong-index", &opw, format!("within({}) of {:?}: point {} is {} away but reported at {}", radius, q, i, real, d), &[0]));
                        break 'q;
                    }
                    if real > radius + band {
                        out.push(Violation::new("kd-wrong-set", &opw, format!("point {} at distance {} returned for radius {}", i, real, radius), &[0]));
                        break 'q;
                    }
                }
                for &i in universe {
                    let real = dist_n(&pts[i], q, dim);
                    if real < radius - band && !seen.contains(&i) {
                        out.push(Violation::new("kd-wrong-set", &opw, format!("point {} at distance {} is missing from within({}) of {:?}", i, real, radius, q), &[0]));
                        break 'q;
                    }
                }
            }
        }
    }
}

const AXES: [[f64; 2]; 4] = [[0.0, 1.0], [0.0, -1.0], [1.0, 0.0], [-1.0, 0.0]];

fn pivot_start_end(mode: (u8, usize, usize)) -> (hull::BallPivotStart, hull::BallPivotEnd) {
    match mode.0 {
        3 => {
            let d = AXES[mode.2 % 4];
            (hull::BallPivotStart::StartOnIndexDir(mode.1, engeom::Vector2::new(d[0], d[1])), hull::BallPivotEnd::EndOnRepeat)
        }
        1 => (hull::BallPivotStart::StartOnIndex(mode.1), hull::BallPivotEnd::EndOnRepeat),
        2 => (hull::BallPivotStart::StartOnIndex(mode.1), hull::BallPivotEnd::EndOnIndex(mode.2)),
        _ => (hull::BallPivotStart::StartOnConvex, hull::BallPivotEnd::EndOnRepeat),
    }
}

/// Exactly representable pivot geometry: half-integer coordinates, a radius with Pythagorean
/// offsets, the ball placed along an axis, and the first contact exactly half a turn away (the
/// vectors involved are exactly anti-parallel). A third point is met between that contact and the
/// moment the ball would let go of the second point again.
fn gen_exact_half_turn(rng: &mut Rng) -> Option<Sc> {
    use std::f64::consts::{PI, TAU};
    let (r, offs): (f64, &[[f64; 2]]) = match rng.below(4) {
        0 => (12.5, &[[12.0, 3.5], [3.5, 12.0], [10.0, 7.5], [7.5, 10.0]]),
        1 => (2.5, &[[2.0, 1.5], [1.5, 2.0]]),
        2 => (6.5, &[[6.0, 2.5], [2.5, 6.0]]),
        _ => (8.5, &[[7.5, 4.0], [4.0, 7.5]]),
    };
    let scale = (2.0f64).powi(rng.range(-3, 3) as i32);
    let axis = rng.below(4);
    let d = AXES[axis];
    let ccw = rng.chance(0.5);
    let t = if rng.chance(0.5) { [0.0, 0.0] } else { [rng.range(-8, 8) as f64, rng.range(-8, 8) as f64] };
    let p0 = [0.0, 0.0];
    let c0 = [r * d[0], r * d[1]];
    let c1 = [-r * d[0], -r * d[1]];
    let o = *rng.pick(offs);
    let sg = [if rng.chance(0.5) { 1.0 } else { -1.0 }, if rng.chance(0.5) { 1.0 } else { -1.0 }];
    let q1 = [c1[0] + sg[0] * o[0], c1[1] + sg[1] * o[1]];
    let norm = |a: [f64; 2]| (a[0] * a[0] + a[1] * a[1]).sqrt();
    let sub = |a: [f64; 2], b: [f64; 2]| [a[0] - b[0], a[1] - b[1]];
    if norm(q1) >= 2.0 * r * 0.98 || norm(q1) < 0.2 * r || norm(sub(q1, c0)) <= r * 1.02 {
        return None;
    }
    // angles (from the starting position, in the pivot direction) at which the ball rotating
    // about p0 touches a point
    let contact_angles = |q: [f64; 2]| -> Option<[f64; 2]> {
        let dd = norm(q);
        if dd == 0.0 || dd >= 2.0 * r {
            return None;
        }
        let mid = [q[0] / 2.0, q[1] / 2.0];
        let h = (r * r - dd * dd / 4.0).sqrt();
        let perp = [-q[1] / dd, q[0] / dd];
        let mut out = [0.0; 2];
        for (k, sgn) in [1.0, -1.0].iter().enumerate() {
            let x = [mid[0] + sgn * h * perp[0], mid[1] + sgn * h * perp[1]];
            let mut a = (c0[0] * x[1] - c0[1] * x[0]).atan2(c0[0] * x[0] + c0[1] * x[1]);
            if !ccw {
                a = -a;
            }
            if a < 0.0 {
                a += TAU;
            }
            out[k] = a;
        }
        Some(out)
    };
    let a1 = contact_angles(q1)?;
    let (first, second) = (a1[0].min(a1[1]), a1[0].max(a1[1]));
    if (first - PI).abs() > 1e-9 || second - first < 0.3 {
        return None;
    }
    // the third point: first met strictly between the two contacts of the second
    let mut q2 = None;
    for _ in 0..60 {
        let c = [(rng.range(-50, 50) as f64) * 0.5, (rng.range(-50, 50) as f64) * 0.5];
        if norm(sub(c, c0)) <= r * 1.02 || norm(sub(c, c1)) <= r * 1.02 || norm(sub(c, q1)) < 0.1 * r {
            continue;
        }
        // three points in a line have no hull to speak of
        if (q1[0] * c[1] - q1[1] * c[0]).abs() < 0.05 * r * r {
            continue;
        }
        if let Some(a2) = contact_angles(c) {
            let f2 = a2[0].min(a2[1]);
            if f2 > first + 0.1 && f2 < second - 0.1 {
                q2 = Some(c);
                break;
            }
        }
    }
    let q2 = q2?;
    let place = |p: [f64; 2]| [(p[0] + t[0]) * scale, (p[1] + t[1]) * scale];
    let mut pts = vec![place(p0), place(q1), place(q2)];
    let mut start = 0;
    if rng.chance(0.5) {
        pts.swap(0, 2);
        start = 2;
    }
    Some(Sc::Hull { label: "exact-half-turn".into(), pts, polygon: false, pivot: Some((r * scale, ccw)), pivot_mode: (3, start, axis) })
}

enum RefPivot {
    /// the index path, starting with the start index, ending on the end index
    Reaches(Vec<usize>),
    Undecided,
}

/// Brute-force ball pivot, continued from the state after a first step (the ball of radius `r`
/// centred at `c` rests on `first` and `second`, having arrived at `second`). Answers `Reaches`
/// only if every decision on the way is clear: no coincident points, no tangent neighbour, no
/// second contact within 1e-4 rad of the chosen one or of the current position, every ball empty
/// with a margin, and the library's own allowance (entries <= 3 x distinct entries) respected.
fn reference_pivot(pts: &[[f64; 2]], r: f64, ccw: bool, first: usize, second: usize, c: [f64; 2], end: usize) -> RefPivot {
    use std::f64::consts::TAU;
    const BAND: f64 = 1e-4;
    let n = pts.len();
    if first >= n || second >= n || end >= n || !(r > 0.0) {
        return RefPivot::Undecided;
    }
    let sub = |a: [f64; 2], b: [f64; 2]| [a[0] - b[0], a[1] - b[1]];
    let norm = |a: [f64; 2]| (a[0] * a[0] + a[1] * a[1]).sqrt();
    let empty = |c: [f64; 2]| pts.iter().all(|q| norm(sub(*q, c)) >= r * (1.0 - 1e-7));
    let mut path = vec![first, second];
    let mut distinct: BTreeSet<usize> = path.iter().copied().collect();
    let (mut prev, mut w, mut c) = (first, second, c);
    if !empty(c) || (norm(sub(c, pts[w])) - r).abs() > 1e-6 * r {
        return RefPivot::Undecided;
    }
    loop {
        if w == end {
            return RefPivot::Reaches(path);
        }
        if path.len() > 3 * distinct.len() || path.len() > 3 * n + 8 {
            return RefPivot::Undecided;
        }
        let pw = pts[w];
        let cur = sub(c, pw);
        let mut cands: Vec<(f64, usize, [f64; 2])> = Vec::new();
        for (q, pq) in pts.iter().enumerate() {
            if q == w {
                continue;
            }
            let dv = sub(*pq, pw);
            let d = norm(dv);
            if d == 0.0 {
                return RefPivot::Undecided;
            }
            if d > 2.0 * r * (1.0 + 1e-7) {
                continue;
            }
            if d > 2.0 * r * (1.0 - 1e-7) {
                return RefPivot::Undecided;
            }
            let mid = [pw[0] + dv[0] / 2.0, pw[1] + dv[1] / 2.0];
            let h = (r * r - d * d / 4.0).max(0.0).sqrt();
            let perp = [-dv[1] / d, dv[0] / d];
            for sgn in [1.0, -1.0] {
                let x = [mid[0] + sgn * h * perp[0], mid[1] + sgn * h * perp[1]];
                let to = sub(x, pw);
                let mut ang = (cur[0] * to[1] - cur[1] * to[0]).atan2(cur[0] * to[0] + cur[1] * to[1]);
                if !ccw {
                    ang = -ang;
                }
                if ang < 0.0 {
                    ang += TAU;
                }
                if ang < BAND || ang > TAU - BAND {
                    // the position the ball is in now (its contact with the point it came from),
                    // or something indistinguishable from it
                    if q == prev && norm(sub(x, c)) < 1e-6 * r {
                        continue;
                    }
                    return RefPivot::Undecided;
                }
                cands.push((ang, q, x));
            }
        }
        cands.sort_by(|a, b| a.0.partial_cmp(&b.0).unwrap());
        let Some(&(a0, q, x)) = cands.first() else { return RefPivot::Undecided };
        if cands.len() >= 2 && cands[1].0 - a0 < BAND {
            return RefPivot::Undecided;
        }
        if !empty(x) {
            return RefPivot::Undecided;
        }
        prev = w;
        w = q;
        c = x;
        path.push(w);
        distinct.insert(w);
    }
}

fn cross2(o: [f64; 2], a: [f64; 2], b: [f64; 2]) -> f64 {
    (a[0] - o[0]) * (b[1] - o[1]) - (a[1] - o[1]) * (b[0] - o[0])
}

fn shoelace(p: &[[f64; 2]]) -> f64 {
    let mut s = 0.0;
    for i in 0..p.len() {
        let j = (i + 1) % p.len();
        s += p[i][0] * p[j][1] - p[j][0] * p[i][1];
    }
    0.5 * s
}

fn pt<const D: usize>(p: &[f64; 3]) -> Point<f64, D> {
    let mut a = [0.0; D];
    a.copy_from_slice(&p[..D]);
    Point::from(a)
}

fn fail<T>(m: &str) -> OpResult<T> {
    OpResult::Panic(format!("construction failed: {}", m))
}

fn observe_points<const D: usize>(sim: &Sim, pts: &[[f64; 3]], order: &[usize], radius: f64, queries: &[[f64; 3]], k: usize, subset: &[usize]) -> PointsObs {
    let b = 50_000_000;
    let all: Vec<Point<f64, D>> = pts.iter().map(pt::<D>).collect();
    let qs: Vec<Point<f64, D>> = queries.iter().map(pt::<D>).collect();
    let kk = NonZero::new(k.max(1)).unwrap();
    let poisson = sim.op("sample_poisson_disk", b, || sample_poisson_disk(&all, order, radius));
    let tree = sim.op("KdTree::new", b, || KdTree::<D>::new(&all));
    let partial = sim.op("PartialKdTree::new", b, || PartialKdTree::<D>::new(&all, subset));
    let (nearest_one, nearest_k, within) = match &tree {
        OpResult::Done(t) => (
            sim.op("KdTree::nearest_one", b, || qs.iter().map(|q| t.nearest_one(q)).collect()),
            sim.op("KdTree::nearest", b, || qs.iter().map(|q| t.nearest(q, kk)).collect()),
            sim.op("KdTree::within", b, || qs.iter().map(|q| t.within(q, radius)).collect()),
        ),
        OpResult::Panic(m) => (fail(m), fail(m), fail(m)),
        OpResult::Budget(_) => (fail("budget"), fail("budget"), fail("budget")),
    };
    let (p_nearest_one, p_nearest_k, p_within) = match &partial {
        OpResult::Done(t) => (
            if subset.is_empty() { OpResult::Done(Vec::new()) } else { sim.op("PartialKdTree::nearest_one", b, || qs.iter().map(|q| t.nearest_one(q)).collect()) },
            sim.op("PartialKdTree::nearest", b, || qs.iter().map(|q| t.nearest(q, kk)).collect()),
            sim.op("PartialKdTree::within", b, || qs.iter().map(|q| t.within(q, radius)).collect()),
        ),
        OpResult::Panic(m) => (fail(m), fail(m), fail(m)),
        OpResult::Budget(_) => (fail("budget"), fail("budget"), fail("budget")),
    };
    let sizes = match (&tree, &partial) {
        (OpResult::Done(t), OpResult::Done(p)) => Some([(t.len(), t.is_empty()), (p.len(), p.is_empty())]),
        _ => None,
    };
    PointsObs { poisson, nearest_one, nearest_k, within, p_nearest_one, p_nearest_k, p_within, sizes }
}

impl Property for C15 {
    type Scenario = Sc;
    type Obs = Obs;

    fn id(&self) -> &'static str {
        "C15"
    }

    fn runs(&self, tier: Tier) -> u64 {
        match tier {
            Tier::Quick => 40_000,
            Tier::Thorough => 600_000,
        }
    }

    fn generate(&self, rng: &mut Rng, tier: Tier) -> Sc {
        match rng.weighted(&[30, 20, 8, 30, 12]) {
            0 => {
                let proportional = rng.chance(0.35);
                let (mut label, mut mesh) = gen_sampling_mesh(rng, if proportional { 40 } else { 200 });
                // Uniform sampling never draws a face of zero area, so such a face (not the last
                // one) may sit in the list without harm; only on fault-free runs, because a word
                // landing exactly on its (doubled) breakpoint is a case the contract does not cover
                let zero_area = mesh.f.len() >= 2 && rng.chance(0.15);
                if zero_area {
                    let f = mesh.f[rng.below(mesh.f.len())];
                    let (a, b) = (mesh.v[f[0] as usize], mesh.v[f[1] as usize]);
                    mesh.v.push(scale(add(a, b), 0.5));
                    let m = (mesh.v.len() - 1) as u32;
                    let at = rng.below(mesh.f.len() - 1);
                    mesh.f.insert(at, [f[0], m, f[1]]);
                    label.push_str("+zero-area-face");
                }
                let cap = 2_000_000 / mesh.f.len().max(1);
                let n = if proportional {
                    (if tier == Tier::Quick { 20_000 } else { 50_000 }).min(cap)
                } else {
                    {
                        let nmax = *rng.pick(&[4usize, 64, 2000]);
                        (if rng.chance(0.03) { 0 } else { 1 + rng.below(nmax) }).min(cap)
                    }
                };
                let fault_rate = if proportional || zero_area { 0.0 } else { *rng.pick(&[0.0, 0.01, 0.1, 1.0]) };
                Sc::Uniform { label, mesh, n, fault_rate }
            }
            1 => {
                let (label, mesh) = gen_sampling_mesh(rng, 60);
                let area: f64 = (0..mesh.f.len()).map(|i| mesh.area(i)).sum();
                // choose the radius so that the dense pre-sample stays below ~max_pts points
                let max_pts = if tier == Tier::Quick { 3000.0 } else { 15000.0 };
                let target = rng.log_uniform(20.0, max_pts);
                let radius = 2.0 * (2.0 * area / target).sqrt();
                let fault_rate = *rng.pick(&[0.0, 0.0, 0.05, 1.0]);
                Sc::PoissonMesh { label, mesh, radius, fault_rate }
            }
            2 => {
                let (label, mesh) = gen_sampling_mesh(rng, 60);
                let area: f64 = (0..mesh.f.len()).map(|i| mesh.area(i)).sum();
                let target = rng.log_uniform(10.0, 4000.0);
                Sc::Dense { label, mesh, spacing: (2.0 * area / target).sqrt() }
            }
            3 => gen_points(rng, tier),
            _ => gen_hull(rng, tier),
        }
    }

    fn swarm(&self, rng: &mut Rng, sc: &Sc) -> Swarm {
        let mut s = Swarm::plain();
        match sc {
            Sc::Uniform { mesh, fault_rate, .. } => {
                s.fault_rate = *fault_rate;
                if *fault_rate > 0.0 {
                    // raw words whose float lands on (or one step off) a cumulative-area breakpoint
                    let me = to_mesh(mesh);
                    let mut cum = Vec::new();
                    let mut total = 0.0;
                    for t in me.tri_mesh().triangles() {
                        total += t.area();
                        cum.push(total);
                    }
                    for c in cum.iter().take(16) {
                        let mant = ((c / total) * (1u64 << 53) as f64) as u64;
                        for d in [-1i64, 0, 1] {
                            let m = (mant as i64 + d).clamp(0, (1i64 << 53) - 1) as u64;
                            s.boundary_bits.push((m << 11) | (rng.next_u64() & 0x7FF));
                        }
                    }
                }
            }
            Sc::PoissonMesh { fault_rate, .. } => s.fault_rate = *fault_rate,
            _ => {}
        }
        s
    }

    fn vectors(&self, rng: &mut Rng, tier: Tier, sc: &Sc) -> usize {
        match sc {
            Sc::Uniform { n, .. } if *n >= 10_000 => 1,
            Sc::Uniform { .. } | Sc::PoissonMesh { .. } => {
                if tier == Tier::Quick {
                    1 + rng.below(3)
                } else {
                    2 + rng.below(5)
                }
            }
            _ => 1,
        }
    }

    fn execute(&self, sc: &Sc, sim: &Sim) -> Obs {
        let b = 100_000_000u64;
        match sc {
            Sc::Uniform { mesh, n, .. } => match sim.op("Mesh::new", b, || to_mesh(mesh)) {
                OpResult::Done(me) => Obs::Samples(sim.op("Mesh::sample_uniform", b, || me.sample_uniform(*n).iter().map(sp).collect())),
                OpResult::Panic(m) => Obs::Construct(m),
                OpResult::Budget(_) => Obs::Construct("budget".into()),
            },
            Sc::PoissonMesh { mesh, radius, .. } => match sim.op("Mesh::new", b, || to_mesh(mesh)) {
                OpResult::Done(me) => Obs::Samples(sim.op("Mesh::sample_poisson", b, || me.sample_poisson(*radius).iter().map(sp).collect())),
                OpResult::Panic(m) => Obs::Construct(m),
                OpResult::Budget(_) => Obs::Construct("budget".into()),
            },
            Sc::Dense { mesh, spacing, .. } => match sim.op("Mesh::new", b, || to_mesh(mesh)) {
                OpResult::Done(me) => Obs::Samples(sim.op("Mesh::sample_dense", b, || me.sample_dense(*spacing).iter().map(sp).collect())),
                OpResult::Panic(m) => Obs::Construct(m),
                OpResult::Budget(_) => Obs::Construct("budget".into()),
            },
            Sc::Points { dim, pts, order, radius, queries, k, subset, .. } => Obs::Points(Box::new(if *dim == 2 {
                observe_points::<2>(sim, pts, order, *radius, queries, *k, subset)
            } else {
                observe_points::<3>(sim, pts, order, *radius, queries, *k, subset)
            })),
            Sc::Hull { pts, pivot, pivot_mode, .. } => {
                let p2: Vec<Point2> = pts.iter().map(|p| Point2::new(p[0], p[1])).collect();
                let (start, end) = pivot_start_end(*pivot_mode);
                let pivot_obs = pivot.map(|(radius, ccw)| {
                    sim.op("hull::ball_pivot_with_centers_2d", b, || {
                        hull::ball_pivot_with_centers_2d(
                            &p2,
                            start,
                            end,
                            if ccw { AngleDir::Ccw } else { AngleDir::Cw },
                            radius,
                        )
                        .map(|(idx, cs)| (idx, cs.iter().map(|c| [c.x, c.y]).collect()))
                        .map_err(|e| e.to_string())
                    })
                });
                let pivot_repeat = match (pivot, pivot_mode.0) {
                    (Some((radius, ccw)), 2) => Some(sim.op("hull::ball_pivot_with_centers_2d", b, || {
                        hull::ball_pivot_with_centers_2d(
                            &p2,
                            start,
                            hull::BallPivotEnd::EndOnRepeat,
                            if *ccw { AngleDir::Ccw } else { AngleDir::Cw },
                            *radius,
                        )
                        .map(|(idx, cs)| (idx, cs.iter().map(|c| [c.x, c.y]).collect()))
                        .map_err(|e| e.to_string())
                    })),
                    _ => None,
                };
                let hull_idx = sim.op("hull::convex_hull_2d", b, || hull::convex_hull_2d(&p2));
                let far = sim.op("hull::farthest_pair_indices", b, || {
                    parry2d_f64::shape::ConvexPolygon::from_convex_hull(&p2).map(|poly| {
                        let (i, j) = hull::farthest_pair_indices(&poly);
                        (i, j, poly.points().iter().map(|p| [p.x, p.y]).collect())
                    })
                });
                let ccw = sim.op("hull::point_order_direction", b, || matches!(hull::point_order_direction(&p2), AngleDir::Ccw));
                Obs::Hull(Box::new(HullObs { hull: hull_idx, far, ccw, pivot: pivot_obs, pivot_repeat }))
            }
        }
    }

    fn judge(&self, sc: &Sc, runs: &[VectorRun<Obs>], stats: &mut Stats) -> Vec<Violation> {
        let mut out = Vec::new();
        for (vi, r) in runs.iter().enumerate() {
            match (sc, &r.obs) {
                (_, Obs::Construct(m)) => out.push(Violation::new("panic", "Mesh::new", m.clone(), &[vi])),
                (Sc::Uniform { mesh, n, fault_rate, .. }, Obs::Samples(o)) => {
                    let op = "Mesh::sample_uniform";
                    match o {
                        OpResult::Panic(m) => out.push(Violation::new("panic", op, m.clone(), &[vi])),
                        OpResult::Budget(b) => out.push(Violation::new("step-budget", op, format!("more than {} random words", b), &[vi])),
                        OpResult::Done(samples) => {
                            if samples.len() != *n {
                                out.push(Violation::new("sample-count", op, format!("asked for {} samples, got {}", n, samples.len()), &[vi]));
                                continue;
                            }
                            // reach probe: an area draw exactly on / next to a breakpoint
                            if *fault_rate > 0.0 {
                                let me = to_mesh(mesh);
                                let mut cum = Vec::new();
                                let mut total = 0.0;
                                for t in me.tri_mesh().triangles() {
                                    total += t.area();
                                    cum.push(total);
                                }
                                for (di, d) in r.consumed.draws.iter().enumerate() {
                                    if di % 3 == 0 {
                                        let rr = (d.bits >> 11) as f64 * (1.0 / (1u64 << 53) as f64) * total;
                                        if cum.iter().any(|c| *c == rr) {
                                            stats.bump("probe:area-draw-exactly-on-breakpoint");
                                        } else if cum.iter().any(|c| (*c - rr).abs() <= 4.0 * f64::EPSILON * total) {
                                            stats.bump("probe:area-draw-next-to-breakpoint");
                                        }
                                    }
                                }
                            }
                            if let Some(faces) = check_on_surface(mesh, samples, op, vi, &mut out) {
                                stats.add("samples:on-surface-checked", samples.len() as u64);
                                if *fault_rate == 0.0 && *n >= 10_000 {
                                    stats.bump("proportionality:checked");
                                    let areas: Vec<f64> = (0..mesh.f.len()).map(|i| mesh.area(i)).collect();
                                    let total: f64 = areas.iter().sum();
                                    let mut definite = vec![0u64; mesh.f.len()];
                                    let mut maybe = vec![0u64; mesh.f.len()];
                                    for fs in &faces {
                                        if fs.len() == 1 {
                                            definite[fs[0]] += 1;
                                        } else {
                                            for &f in fs {
                                                maybe[f] += 1;
                                            }
                                        }
                                    }
                                    let nn = *n as f64;
                                    for k in 0..mesh.f.len() {
                                        let p = areas[k] / total;
                                        let tol = 7.0 * (nn * p * (1.0 - p)).sqrt() + 2.0;
                                        let lo = definite[k] as f64;
                                        let hi = (definite[k] + maybe[k]) as f64;
                                        if lo > nn * p + tol || hi < nn * p - tol {
                                            out.push(Violation::new(
                                                "sample-not-area-proportional",
                                                op,
                                                format!("face {} holds {:.4} of the area but received {}..{} of {} samples (expected {:.1} +- {:.1})", k, p, lo, hi, n, nn * p, tol),
                                                &[vi],
                                            ));
                                            break;
                                        }
                                    }
                                }
                            }
                        }
                    }
                }
                (Sc::PoissonMesh { mesh, radius, .. }, Obs::Samples(o)) => {
                    let op = "Mesh::sample_poisson";
                    match o {
                        OpResult::Panic(m) => out.push(Violation::new("panic", op, m.clone(), &[vi])),
                        OpResult::Budget(b) => out.push(Violation::new("step-budget", op, format!("more than {} random words", b), &[vi])),
                        OpResult::Done(samples) => {
                            if check_on_surface(mesh, samples, op, vi, &mut out).is_some() {
                                stats.add("samples:on-surface-checked", samples.len() as u64);
                                let eps = 1e-9 * radius;
                                'sep: for a in 0..samples.len() {
                                    for b in (a + 1)..samples.len() {
                                        let d = dist3(samples[a].0, samples[b].0);
                                        if d < radius - eps {
                                            out.push(Violation::new(
                                                "poisson-separation",
                                                op,
                                                format!("kept points {} and {} are {} apart, closer than the radius {} ({} points kept)", a, b, d, radius, samples.len()),
                                                &[vi],
                                            ));
                                            break 'sep;
                                        }
                                    }
                                }
                                if samples.is_empty() {
                                    out.push(Violation::new("poisson-coverage", op, "no point was kept on a mesh of positive area".into(), &[vi]));
                                }
                                if r.consumed.draws.len() > 1 {
                                    stats.bump("probe:poisson-shuffle-consumed-draws");
                                }
                            }
                        }
                    }
                }
                (Sc::Dense { mesh, .. }, Obs::Samples(o)) => {
                    let op = "Mesh::sample_dense";
                    stats.bump("companion:sample-dense");
                    match o {
                        OpResult::Panic(m) => out.push(Violation::new("panic", op, m.clone(), &[vi])),
                        OpResult::Budget(_) => {}
                        OpResult::Done(samples) => {
                            if samples.len() < mesh.f.len() {
                                out.push(Violation::new("sample-count", op, format!("{} faces but only {} samples", mesh.f.len(), samples.len()), &[vi]));
                            }
                            check_on_surface(mesh, samples, op, vi, &mut out);
                        }
                    }
                }
                (Sc::Points { dim, pts, order, radius, queries, k, subset, .. }, Obs::Points(o)) => {
                    let op = "sample_poisson_disk";
                    match &o.poisson {
                        OpResult::Panic(m) => out.push(Violation::new("panic", op, m.clone(), &[vi])),
                        OpResult::Budget(_) => {}
                        OpResult::Done(kept) => {
                            let working: BTreeSet<usize> = order.iter().copied().collect();
                            let kset: BTreeSet<usize> = kept.iter().copied().collect();
                            let eps = 1e-9 * radius;
                            if kset.len() != kept.len() || !kset.is_subset(&working) {
                                out.push(Violation::new("poisson-subset", op, format!("kept indices are not a duplicate-free subset of the working indices ({} kept, {} distinct)", kept.len(), kset.len()), &[vi]));
                            } else {
                                let mut bad = None;
                                'sep2: for (ai, &a) in kept.iter().enumerate() {
                                    for &b in &kept[ai + 1..] {
                                        let d = dist_n(&pts[a], &pts[b], *dim);
                                        if d < radius - eps {
                                            bad = Some(format!("kept points {} and {} are {} apart, closer than the radius {}", a, b, d, radius));
                                            break 'sep2;
                                        }
                                    }
                                }
                                if let Some(m) = bad {
                                    out.push(Violation::new("poisson-separation", op, m, &[vi]));
                                }
                                for &w in order {
                                    if !kept.iter().any(|&kp| dist_n(&pts[w], &pts[kp], *dim) <= radius + eps) {
                                        out.push(Violation::new("poisson-coverage", op, format!("working point {} has no kept point within the radius {}", w, radius), &[vi]));
                                        break;
                                    }
                                }
                                if kept.len() >= 2 && kept.len() < order.len() {
                                    stats.bump("probe:poisson-kept-proper-subset");
                                }
                            }
                        }
                    }
                    if let Some(s) = &o.sizes {
                        stats.bump("companion:kd-len");
                        if s[0] != (pts.len(), pts.is_empty()) || s[1] != (subset.len(), subset.is_empty()) {
                            out.push(Violation::new("kd-wrong-count", "KdTree::len", format!("len/is_empty report {:?} for {} points and a subset of {}", s, pts.len(), subset.len()), &[vi]));
                        }
                    }
                    let universe: Vec<usize> = (0..pts.len()).collect();
                    check_kd("KdTree", pts, *dim, &universe, queries, *k, *radius, &o.nearest_one, &o.nearest_k, &o.within, stats, &mut out);
                    check_kd("PartialKdTree", pts, *dim, subset, queries, *k, *radius, &o.p_nearest_one, &o.p_nearest_k, &o.p_within, stats, &mut out);
                    // reach probe: many points share a coordinate (oversize k-d leaves)
                    let mut shared: BTreeMap<u64, usize> = BTreeMap::new();
                    for p in pts {
                        *shared.entry(p[0].to_bits()).or_insert(0) += 1;
                    }
                    if shared.values().any(|&c| c > 32) {
                        stats.bump("probe:more-than-32-points-share-a-coordinate");
                    }
                }
                (Sc::Hull { pts, polygon, pivot, .. }, Obs::Hull(o)) => {
                    if let (Some((radius, _)), Some(po)) = (pivot, &o.pivot) {
                        let op = "hull::ball_pivot_with_centers_2d";
                        match po {
                            OpResult::Panic(m) => out.push(Violation::new("panic", op, m.clone(), &[vi])),
                            OpResult::Budget(_) => {}
                            OpResult::Done(Err(e)) => {
                                stats.bump("ball-pivot:returned-err");
                                // an error is the right answer when no path exists or the walk
                                // really loops; it is not when the pivot, continued by brute force
                                // from the first step the library itself reports, reaches the end
                                // index over clear (tie-free, empty-ball) steps within the
                                // library's own loop allowance
                                if let (Sc::Hull { pivot: Some((_, ccw)), pivot_mode, .. }, Some(OpResult::Done(Ok((ridx, rc))))) = (sc, &o.pivot_repeat) {
                                    if pivot_mode.0 == 2 && ridx.len() >= 2 && !rc.is_empty() {
                                        match reference_pivot(pts, *radius, *ccw, ridx[0], ridx[1], rc[0], pivot_mode.2) {
                                            RefPivot::Reaches(path) => {
                                                stats.bump("probe:ball-pivot-err-judged-by-reference");
                                                out.push(Violation::new("ball-pivot-no-answer", op, format!("returned the error {:?} although pivoting from {} reaches the end index {} over {} clear steps (path {:?})", e, ridx[0], pivot_mode.2, path.len() - 1, &path[..path.len().min(40)]), &[vi]));
                                            }
                                            RefPivot::Undecided => stats.bump("ball-pivot:err-not-judged"),
                                        }
                                    }
                                }
                            }
                            OpResult::Done(Ok((idx, centres))) => {
                                stats.bump("companion:ball-pivot");
                                if idx.len() > pts.len() {
                                    stats.bump("probe:ball-pivot-path-longer-than-point-count");
                                }
                                stats.add("companion:ball-pivot-steps", centres.len() as u64);
                                let d2 = |a: [f64; 2], b: [f64; 2]| ((a[0] - b[0]).powi(2) + (a[1] - b[1]).powi(2)).sqrt();
                                if idx.iter().any(|&i| i >= pts.len()) || (centres.len() + 1 != idx.len() && !idx.is_empty()) {
                                    out.push(Violation::new("ball-pivot", op, format!("{} indices and {} centres", idx.len(), centres.len()), &[vi]));
                                } else {
                                    'steps: for (s, c) in centres.iter().enumerate() {
                                        let (a, b) = (pts[idx[s]], pts[idx[s + 1]]);
                                        if (d2(*c, a) - radius).abs() > 1e-6 * radius || (d2(*c, b) - radius).abs() > 1e-6 * radius {
                                            out.push(Violation::new("ball-pivot", op, format!("step {}: centre {:?} is {} and {} from points {} and {}, radius {}", s, c, d2(*c, a), d2(*c, b), idx[s], idx[s + 1], radius), &[vi]));
                                            break;
                                        }
                                        for (qi, q) in pts.iter().enumerate() {
                                            if d2(*c, *q) < radius - 1e-6 * radius {
                                                out.push(Violation::new("ball-pivot", op, format!("step {} ({} -> {}): point {} is {} from the ball centre, inside the radius {}", s, idx[s], idx[s + 1], qi, d2(*c, *q), radius), &[vi]));
                                                break 'steps;
                                            }
                                        }
                                    }
                                }
                            }
                        }
                    }
                    let scale_len = pts.iter().fold(0.0f64, |a, p| a.max(p[0].abs()).max(p[1].abs())).max(1e-300);
                    match &o.hull {
                        OpResult::Panic(m) => out.push(Violation::new("panic", "hull::convex_hull_2d", m.clone(), &[vi])),
                        OpResult::Budget(_) => {}
                        OpResult::Done(h) => {
                            stats.bump("companion:convex-hull");
                            let hs: BTreeSet<usize> = h.iter().copied().collect();
                            if hs.len() != h.len() || h.iter().any(|&i| i >= pts.len()) || h.len() < 3 {
                                out.push(Violation::new("hull-indices", "hull::convex_hull_2d", format!("hull indices {:?} are repeated, out of range or fewer than three", h), &[vi]));
                            } else {
                                let poly: Vec<[f64; 2]> = h.iter().map(|&i| pts[i]).collect();
                                if shoelace(&poly) <= 0.0 {
                                    out.push(Violation::new("hull-not-ccw", "hull::convex_hull_2d", format!("hull {:?} has signed area {}", h, shoelace(&poly)), &[vi]));
                                } else {
                                    // (parry's hull works with an absolute epsilon: at a length unit of 1e-6 a
                                    // point was seen 2e-9 of the extent outside an edge; 1e-7 is the tie band)
                                    let tol = 1e-7 * scale_len * scale_len;
                                    'inside: for (pi, p) in pts.iter().enumerate() {
                                        for e in 0..poly.len() {
                                            let c = cross2(poly[e], poly[(e + 1) % poly.len()], *p);
                                            if c < -tol {
                                                out.push(Violation::new("hull-not-enclosing", "hull::convex_hull_2d", format!("point {} {:?} lies outside hull edge {}->{} (cross {})", pi, p, h[e], h[(e + 1) % h.len()], c), &[vi]));
                                                break 'inside;
                                            }
                                        }
                                    }
                                }
                            }
                        }
                    }
                    match &o.far {
                        OpResult::Panic(m) => out.push(Violation::new("panic", "hull::farthest_pair_indices", m.clone(), &[vi])),
                        OpResult::Budget(_) | OpResult::Done(None) => {}
                        OpResult::Done(Some((i, j, hp))) => {
                            stats.bump("companion:farthest-pair");
                            let mut best = 0.0f64;
                            for a in 0..hp.len() {
                                for b in (a + 1)..hp.len() {
                                    best = best.max(((hp[a][0] - hp[b][0]).powi(2) + (hp[a][1] - hp[b][1]).powi(2)).sqrt());
                                }
                            }
                            if *i >= hp.len() || *j >= hp.len() {
                                out.push(Violation::new("farthest-pair", "hull::farthest_pair_indices", format!("indices ({}, {}) out of range of the {} hull points", i, j, hp.len()), &[vi]));
                            } else {
                                let d = ((hp[*i][0] - hp[*j][0]).powi(2) + (hp[*i][1] - hp[*j][1]).powi(2)).sqrt();
                                if !close(d, best) {
                                    out.push(Violation::new("farthest-pair", "hull::farthest_pair_indices", format!("pair ({}, {}) is {} apart but the diameter is {}", i, j, d, best), &[vi]));
                                }
                            }
                        }
                    }
                    if *polygon {
                        match &o.ccw {
                            OpResult::Panic(m) => out.push(Violation::new("panic", "hull::point_order_direction", m.clone(), &[vi])),
                            OpResult::Budget(_) => {}
                            OpResult::Done(ccw) => {
                                stats.bump("companion:order-direction");
                                let a = shoelace(pts);
                                if (a > 0.0) != *ccw {
                                    out.push(Violation::new("order-direction", "hull::point_order_direction", format!("polygon with signed area {} reported as {}", a, if *ccw { "Ccw" } else { "Cw" }), &[vi]));
                                }
                            }
                        }
                    }
                }
                _ => unreachable!(),
            }
        }
        out
    }

    fn raw_digest(&self, obs: &Obs) -> Digest {
        let mut d = Digest::new();
        match obs {
            Obs::Samples(o) => match o.done() {
                Some(s) => {
                    d.u64(s.len() as u64);
                    for x in s.iter().take(64) {
                        for k in 0..3 {
                            d.f64(x.0[k]);
                        }
                    }
                }
                None => d.u64(1),
            },
            Obs::Points(o) => match o.poisson.done() {
                Some(k) => {
                    for &i in k {
                        d.u64(i as u64);
                    }
                }
                None => d.u64(2),
            },
            Obs::Hull(o) => match o.hull.done() {
                Some(h) => {
                    for &i in h {
                        d.u64(i as u64);
                    }
                }
                None => d.u64(3),
            },
            Obs::Construct(m) => d.str(m),
        }
        d
    }

    fn shrink(&self, sc: &Sc) -> Vec<Sc> {
        let mut out = Vec::new();
        let mesh_shrinks = |mesh: &M| -> Vec<M> {
            let mut v: Vec<M> = chunk_removals(&mesh.f, 1).into_iter().take(24).map(|f| M { v: mesh.v.clone(), f }.compact()).collect();
            let c = mesh.compact();
            if c != *mesh {
                v.push(c);
            }
            v
        };
        match sc {
            Sc::Uniform { label, mesh, n, fault_rate } => {
                for nn in [1usize, n / 4, n / 2, n - 1] {
                    if nn >= 1 && nn < *n {
                        out.push(Sc::Uniform { label: label.clone(), mesh: mesh.clone(), n: nn, fault_rate: *fault_rate });
                    }
                }
                // proportionality needs its sample size: only shrink the mesh
                for m in mesh_shrinks(mesh) {
                    out.push(Sc::Uniform { label: label.clone(), mesh: m, n: *n, fault_rate: *fault_rate });
                }
            }
            Sc::PoissonMesh { label, mesh, radius, fault_rate } => {
                for m in mesh_shrinks(mesh) {
                    out.push(Sc::PoissonMesh { label: label.clone(), mesh: m, radius: *radius, fault_rate: *fault_rate });
                }
                out.push(Sc::PoissonMesh { label: label.clone(), mesh: mesh.clone(), radius: radius * 1.5, fault_rate: *fault_rate });
            }
            Sc::Dense { label, mesh, spacing } => {
                for m in mesh_shrinks(mesh) {
                    out.push(Sc::Dense { label: label.clone(), mesh: m, spacing: *spacing });
                }
                out.push(Sc::Dense { label: label.clone(), mesh: mesh.clone(), spacing: spacing * 1.5 });
            }
            Sc::Points { label, dim, pts, order, radius, queries, k, subset } => {
                let mk = |pts: Vec<[f64; 3]>, order: Vec<usize>, queries: Vec<[f64; 3]>, k: usize, subset: Vec<usize>| Sc::Points { label: label.clone(), dim: *dim, pts, order, radius: *radius, queries, k, subset };
                // remove chunks of points, remapping the index lists
                let idx: Vec<usize> = (0..pts.len()).collect();
                for keep in chunk_removals(&idx, 1).into_iter().take(48) {
                    let map: BTreeMap<usize, usize> = keep.iter().enumerate().map(|(n, &o)| (o, n)).collect();
                    let np: Vec<[f64; 3]> = keep.iter().map(|&i| pts[i]).collect();
                    let no: Vec<usize> = order.iter().filter_map(|i| map.get(i).copied()).collect();
                    let ns: Vec<usize> = subset.iter().filter_map(|i| map.get(i).copied()).collect();
                    if no.is_empty() || ns.is_empty() {
                        continue;
                    }
                    out.push(mk(np, no, queries.clone(), *k, ns));
                }
                for q in chunk_removals(queries, 1).into_iter().take(16) {
                    out.push(mk(pts.clone(), order.clone(), q, *k, subset.clone()));
                }
                for o in chunk_removals(order, 1).into_iter().take(16) {
                    out.push(mk(pts.clone(), o, queries.clone(), *k, subset.clone()));
                }
                for s in chunk_removals(subset, 1).into_iter().take(16) {
                    out.push(mk(pts.clone(), order.clone(), queries.clone(), *k, s));
                }
                if *k > 1 {
                    out.push(mk(pts.clone(), order.clone(), queries.clone(), 1, subset.clone()));
                    out.push(mk(pts.clone(), order.clone(), queries.clone(), k / 2, subset.clone()));
                }
            }
            Sc::Hull { label, pts, polygon, pivot, pivot_mode } => {
                if pivot_mode.0 != 0 && pivot_mode.0 != 3 {
                    // remove single points other than the designated ones, remapping the indices
                    for drop in (0..pts.len()).rev().take(60) {
                        if drop == pivot_mode.1 || drop == pivot_mode.2 || pts.len() <= 4 {
                            continue;
                        }
                        let p: Vec<[f64; 2]> = pts.iter().enumerate().filter(|(i, _)| *i != drop).map(|(_, q)| *q).collect();
                        let fix = |i: usize| if i > drop { i - 1 } else { i };
                        out.push(Sc::Hull { label: label.clone(), pts: p, polygon: *polygon, pivot: *pivot, pivot_mode: (pivot_mode.0, fix(pivot_mode.1), fix(pivot_mode.2)) });
                    }
                }
                for p in chunk_removals(pts, 4).into_iter().take(48) {
                    // indices of the start / end vertices refer to positions: only keep candidates
                    // that leave them meaningful (mode 0 has none)
                    if pivot_mode.0 == 0 {
                        out.push(Sc::Hull { label: label.clone(), pts: p, polygon: *polygon, pivot: *pivot, pivot_mode: *pivot_mode });
                    }
                }
            }
        }
        out
    }

    fn valid(&self, sc: &Sc) -> bool {
        let proper = |m: &M, i: usize| {
            let t = m.tri(i);
            let (e1, e2) = (sub(t[1], t[0]), sub(t[2], t[0]));
            m.area(i) > 1e-13 && norm(cross(e1, e2)) > 1e-4 * norm(e1) * norm(e2)
        };
        match sc {
            Sc::Uniform { mesh, fault_rate, .. } => {
                // zero-area faces only on fault-free runs and never last; at least one proper face
                let n = mesh.f.len();
                n >= 1
                    && proper(mesh, n - 1)
                    && (0..n).all(|i| proper(mesh, i) || (*fault_rate == 0.0 && mesh.area(i) < 1e-13))
            }
            Sc::PoissonMesh { mesh, radius, .. } => !mesh.f.is_empty() && (0..mesh.f.len()).all(|i| proper(mesh, i)) && *radius > 0.0,
            Sc::Dense { mesh, spacing, .. } => !mesh.f.is_empty() && (0..mesh.f.len()).all(|i| proper(mesh, i)) && *spacing > 0.0,
            Sc::Points { pts, order, subset, queries, k, .. } => {
                !pts.is_empty() && !order.is_empty() && !queries.is_empty() && *k >= 1
                    && order.iter().all(|&i| i < pts.len())
                    && subset.iter().all(|&i| i < pts.len())
            }
            Sc::Hull { pts, pivot_mode, .. } if pivot_mode.0 == 3 => pts.len() >= 3 && pivot_mode.1 < pts.len(),
            Sc::Hull { pts, pivot_mode, .. } => pts.len() >= 4 && pivot_mode.1 < pts.len() && pivot_mode.2 < pts.len(),
        }
    }

    fn fingerprints(&self, sc: &Sc, _v: &Violation) -> Vec<String> {
        let mut fp = Vec::new();
        match sc {
            Sc::Points { pts, dim, .. } => {
                for ax in 0..*dim {
                    let mut shared: BTreeMap<u64, usize> = BTreeMap::new();
                    for p in pts {
                        *shared.entry(p[ax].to_bits()).or_insert(0) += 1;
                    }
                    if shared.values().any(|&c| c > 32) {
                        fp.push("points:more-than-32-share-a-coordinate".into());
                        break;
                    }
                }
                fp.push("points".into());
            }
            Sc::Uniform { .. } => fp.push("sample-uniform".into()),
            Sc::PoissonMesh { .. } => fp.push("sample-poisson".into()),
            Sc::Dense { .. } => fp.push("sample-dense".into()),
            Sc::Hull { pts, pivot, pivot_mode, .. } => {
                fp.push("hull".into());
                // near-tie: at some reported contact a third input point lies within 1e-5 r of
                // the ball's boundary (the code discards contacts whose pivot angle is below
                // 1e-6 rad, so what it does next at such a point is decided by rounding)
                if let Some((radius, ccw)) = pivot {
                    let p2: Vec<Point2> = pts.iter().map(|p| Point2::new(p[0], p[1])).collect();
                    let (start, end) = pivot_start_end(*pivot_mode);
                    let res = std::panic::catch_unwind(|| {
                        hull::ball_pivot_with_centers_2d(
                            &p2,
                            start,
                            end,
                            if *ccw { AngleDir::Ccw } else { AngleDir::Cw },
                            *radius,
                        )
                        .ok()
                    });
                    if let Ok(Some((idx, centres))) = res {
                        'tie: for (s, c) in centres.iter().enumerate() {
                            for (qi, q) in pts.iter().enumerate() {
                                if qi == idx[s] || qi == idx[s + 1] {
                                    continue;
                                }
                                let d = ((c.x - q[0]).powi(2) + (c.y - q[1]).powi(2)).sqrt();
                                if (d - radius).abs() <= 1e-5 * radius {
                                    fp.push("ball-pivot:third-point-within-1e-5r-of-a-contact-ball".into());
                                    break 'tie;
                                }
                            }
                        }
                    }
                }
            }
        }
        fp
    }

    fn nontrivial(&self, sc: &Sc) -> bool {
        match sc {
            Sc::Uniform { n, .. } => *n >= 2,
            Sc::PoissonMesh { .. } => true,
            // pure clauses consume no decision, so they never count as distinct simulated cases
            Sc::Dense { .. } | Sc::Hull { .. } => false,
            Sc::Points { order, .. } => order.len() >= 2,
        }
    }

    fn rule(&self) -> String {
        "one case = (scenario, consumed decision vector). Simulated scenarios: Mesh::sample_uniform(n) and Mesh::sample_poisson(r) on boxes, tubes, height fields, spheres, sliver-to-unit area mixes in random pose, with every random word supplied by the simulator (uniform words, or injected extremes 0 / all-ones / words landing on a cumulative-area breakpoint at per-run rates 0, 1%, 10%, 100%); sample_poisson_disk on uniform / clustered / exact-lattice / duplicated / axis-tied point sets in 2-D and 3-D under identity, reverse, random and axis-sorted visiting orders. Oracles: brute-force point-triangle distance and face normal, 7-sigma area proportionality (fault-free runs, n >= 10000), brute-force separation and coverage. Distinct = distinct digest of (scenario JSON, consumed random words); only scenarios that consume at least one decision (samplers) or a visiting order (Poisson-disk) count as non-trivial. Companion assertions (k-d tree vs linear scan, dense sampling, hull, farthest pair, order direction) are counted under 'companion' and never as simulated cases.".into()
    }

    fn components(&self) -> serde_json::Value {
        json!({
            "real": ["engeom Mesh::{sample_uniform, sample_poisson, sample_dense}", "engeom sample_poisson_disk, KdTree, PartialKdTree", "kiddo ImmutableKdTree", "rand StandardUniform<f64> and SliceRandom::shuffle (on simulator-supplied words)", "engeom geom2::hull::{convex_hull_2d, farthest_pair_indices, point_order_direction}", "parry2d convex hull"],
            "replaced_by_simulator": ["rand::random / rand::rng (OS-seeded thread RNG): every 64-bit word"],
            "stubbed": []
        })
    }

    fn assumptions(&self) -> Vec<String> {
        vec![
            "the roles of the random words of a sample (area pick / two barycentric words) are not assumed; extremes are injected by position".into(),
            "pairs within 1e-9 relative of the radius are not judged (strict vs non-strict comparison is not stated by the property)".into(),
            "area proportionality is a 7-sigma + 2 statistical bound on the fault-free configuration only".into(),
            "degenerate (zero-area) faces are outside the samplers' documented contract and are not generated".into(),
        ]
    }
}
