//! Seeded mesh generators and transformations shared by the property modules.
//! Only `BTree*` containers here: nothing in the harness depends on a random hash order.

use crate::rng::Rng;
use serde::{Deserialize, Serialize};
use std::collections::{BTreeMap, BTreeSet};

#[derive(Serialize, Deserialize, Clone, Debug, PartialEq)]
pub struct M {
    pub v: Vec<[f64; 3]>,
    pub f: Vec<[u32; 3]>,
}

pub fn ekey(a: u32, b: u32) -> (u32, u32) {
    if a < b {
        (a, b)
    } else {
        (b, a)
    }
}

pub fn sub(a: [f64; 3], b: [f64; 3]) -> [f64; 3] {
    [a[0] - b[0], a[1] - b[1], a[2] - b[2]]
}
pub fn add(a: [f64; 3], b: [f64; 3]) -> [f64; 3] {
    [a[0] + b[0], a[1] + b[1], a[2] + b[2]]
}
pub fn scale(a: [f64; 3], s: f64) -> [f64; 3] {
    [a[0] * s, a[1] * s, a[2] * s]
}
pub fn dot(a: [f64; 3], b: [f64; 3]) -> f64 {
    a[0] * b[0] + a[1] * b[1] + a[2] * b[2]
}
pub fn cross(a: [f64; 3], b: [f64; 3]) -> [f64; 3] {
    [
        a[1] * b[2] - a[2] * b[1],
        a[2] * b[0] - a[0] * b[2],
        a[0] * b[1] - a[1] * b[0],
    ]
}
pub fn norm(a: [f64; 3]) -> f64 {
    dot(a, a).sqrt()
}
pub fn dist3(a: [f64; 3], b: [f64; 3]) -> f64 {
    norm(sub(a, b))
}
pub fn unit(a: [f64; 3]) -> [f64; 3] {
    let n = norm(a);
    scale(a, 1.0 / n)
}

impl M {
    pub fn tri(&self, i: usize) -> [[f64; 3]; 3] {
        let f = self.f[i];
        [self.v[f[0] as usize], self.v[f[1] as usize], self.v[f[2] as usize]]
    }
    pub fn area(&self, i: usize) -> f64 {
        let t = self.tri(i);
        0.5 * norm(cross(sub(t[1], t[0]), sub(t[2], t[0])))
    }
    pub fn normal(&self, i: usize) -> Option<[f64; 3]> {
        let t = self.tri(i);
        let c = cross(sub(t[1], t[0]), sub(t[2], t[0]));
        let n = norm(c);
        if n > 0.0 {
            Some(scale(c, 1.0 / n))
        } else {
            None
        }
    }
    pub fn size(&self) -> f64 {
        let mut lo = [f64::INFINITY; 3];
        let mut hi = [f64::NEG_INFINITY; 3];
        for p in &self.v {
            for k in 0..3 {
                lo[k] = lo[k].min(p[k]);
                hi[k] = hi[k].max(p[k]);
            }
        }
        dist3(lo, hi).max(1e-300)
    }
    /// undirected edge -> number of faces using it
    pub fn edge_counts(&self) -> BTreeMap<(u32, u32), usize> {
        let mut m = BTreeMap::new();
        for f in &self.f {
            for k in 0..3 {
                *m.entry(ekey(f[k], f[(k + 1) % 3])).or_insert(0) += 1;
            }
        }
        m
    }
    /// no edge used by more than two faces, no face with a repeated vertex
    pub fn in_domain(&self) -> bool {
        self.f.iter().all(|f| f[0] != f[1] && f[1] != f[2] && f[0] != f[2])
            && self.edge_counts().values().all(|&c| c <= 2)
    }
    /// some directed edge is carried by two faces (inconsistent winding or duplicated face)
    pub fn has_repeated_directed_edge(&self) -> bool {
        let mut seen = BTreeSet::new();
        for f in &self.f {
            for k in 0..3 {
                if !seen.insert((f[k], f[(k + 1) % 3])) {
                    return true;
                }
            }
        }
        false
    }
    /// number of boundary edges incident to each vertex
    pub fn boundary_degree(&self) -> BTreeMap<u32, usize> {
        let mut d = BTreeMap::new();
        for (e, c) in self.edge_counts() {
            if c == 1 {
                *d.entry(e.0).or_insert(0) += 1;
                *d.entry(e.1).or_insert(0) += 1;
            }
        }
        d
    }
    /// some vertex touches more than two boundary edges (faces meeting only at a vertex)
    pub fn has_pinched_vertex(&self) -> bool {
        self.boundary_degree().values().any(|&d| d > 2)
    }
    /// face components under shared undirected edges (reference model for patches)
    pub fn edge_components(&self) -> Vec<Vec<usize>> {
        let mut uf: Vec<usize> = (0..self.f.len()).collect();
        fn find(uf: &mut Vec<usize>, mut x: usize) -> usize {
            while uf[x] != x {
                uf[x] = uf[uf[x]];
                x = uf[x];
            }
            x
        }
        let mut first: BTreeMap<(u32, u32), usize> = BTreeMap::new();
        for (i, f) in self.f.iter().enumerate() {
            for k in 0..3 {
                let e = ekey(f[k], f[(k + 1) % 3]);
                if let Some(&j) = first.get(&e) {
                    let (a, b) = (find(&mut uf, i), find(&mut uf, j));
                    if a != b {
                        uf[a] = b;
                    }
                } else {
                    first.insert(e, i);
                }
            }
        }
        let mut groups: BTreeMap<usize, Vec<usize>> = BTreeMap::new();
        for i in 0..self.f.len() {
            let r = find(&mut uf, i);
            groups.entry(r).or_default().push(i);
        }
        let mut out: Vec<Vec<usize>> = groups.into_values().collect();
        out.sort();
        out
    }
    /// Number of boundary cycles when every boundary vertex has degree two, else None.
    pub fn simple_boundary_cycles(&self) -> Option<Vec<Vec<u32>>> {
        let mut adj: BTreeMap<u32, Vec<u32>> = BTreeMap::new();
        for (e, c) in self.edge_counts() {
            if c == 1 {
                adj.entry(e.0).or_default().push(e.1);
                adj.entry(e.1).or_default().push(e.0);
            }
        }
        if adj.values().any(|n| n.len() != 2) {
            return None;
        }
        let mut seen = BTreeSet::new();
        let mut cycles = Vec::new();
        for &start in adj.keys() {
            if seen.contains(&start) {
                continue;
            }
            let mut cyc = vec![start];
            seen.insert(start);
            let mut prev = start;
            let mut cur = adj[&start][0];
            while cur != start {
                cyc.push(cur);
                seen.insert(cur);
                let n = &adj[&cur];
                let next = if n[0] == prev { n[1] } else { n[0] };
                prev = cur;
                cur = next;
            }
            cycles.push(cyc);
        }
        Some(cycles)
    }
    pub fn has_distinct_positions(&self) -> bool {
        let set: BTreeSet<[u64; 3]> = self.v.iter().map(|p| [p[0].to_bits(), p[1].to_bits(), p[2].to_bits()]).collect();
        set.len() == self.v.len()
    }
    pub fn euler_characteristic(&self) -> i64 {
        let used: BTreeSet<u32> = self.f.iter().flat_map(|f| f.iter().copied()).collect();
        used.len() as i64 - self.edge_counts().len() as i64 + self.f.len() as i64
    }
    /// drop unused vertices, renumber densely in order of first use
    pub fn compact(&self) -> M {
        let mut map: BTreeMap<u32, u32> = BTreeMap::new();
        let mut v = Vec::new();
        let mut f = Vec::new();
        for face in &self.f {
            let mut nf = [0u32; 3];
            for k in 0..3 {
                let id = *map.entry(face[k]).or_insert_with(|| {
                    v.push(self.v[face[k] as usize]);
                    (v.len() - 1) as u32
                });
                nf[k] = id;
            }
            f.push(nf);
        }
        M { v, f }
    }
}

/// Canonical form of a cyclic vertex sequence, ignoring rotation and direction.
pub fn canonical_cycle(c: &[u32]) -> Vec<u32> {
    if c.is_empty() {
        return Vec::new();
    }
    let n = c.len();
    let mut best: Option<Vec<u32>> = None;
    let rev: Vec<u32> = c.iter().rev().copied().collect();
    for seq in [c, &rev[..]] {
        let m = *seq.iter().min().unwrap();
        for (i, &x) in seq.iter().enumerate() {
            if x == m {
                let r: Vec<u32> = (0..n).map(|k| seq[(i + k) % n]).collect();
                if best.as_ref().is_none_or(|b| r < *b) {
                    best = Some(r);
                }
            }
        }
    }
    best.unwrap()
}

// ---------------------------------------------------------------------------------------------
// generators

/// Planar grid of `nx` x `ny` cells in the z = 0 plane, two triangles per kept cell with
/// alternating diagonals, vertices jittered by `jitter` (fraction of the cell size).
pub fn grid(rng: &mut Rng, nx: usize, ny: usize, cell: f64, jitter: f64, keep: &dyn Fn(usize, usize) -> bool) -> M {
    grid_diag(rng, nx, ny, cell, jitter, keep, false)
}

/// As `grid`, optionally choosing the diagonal of every cell at random (varied vertex valence).
pub fn grid_diag(rng: &mut Rng, nx: usize, ny: usize, cell: f64, jitter: f64, keep: &dyn Fn(usize, usize) -> bool, random_diag: bool) -> M {
    let mut v = Vec::new();
    for j in 0..=ny {
        for i in 0..=nx {
            let jx = if jitter > 0.0 { rng.uniform(-jitter, jitter) * cell } else { 0.0 };
            let jy = if jitter > 0.0 { rng.uniform(-jitter, jitter) * cell } else { 0.0 };
            v.push([i as f64 * cell + jx, j as f64 * cell + jy, 0.0]);
        }
    }
    let id = |i: usize, j: usize| (j * (nx + 1) + i) as u32;
    let mut f = Vec::new();
    for j in 0..ny {
        for i in 0..nx {
            if !keep(i, j) {
                continue;
            }
            let (a, b, c, d) = (id(i, j), id(i + 1, j), id(i + 1, j + 1), id(i, j + 1));
            let first = if random_diag { rng.chance(0.5) } else { (i + j) % 2 == 0 };
            if first {
                f.push([a, b, c]);
                f.push([a, c, d]);
            } else {
                f.push([a, b, d]);
                f.push([b, c, d]);
            }
        }
    }
    M { v, f }
}

/// Random subset of cells of an nx x ny board; `density` of the cells kept.
pub fn random_cells(rng: &mut Rng, nx: usize, ny: usize, density: f64) -> BTreeSet<(usize, usize)> {
    let mut s = BTreeSet::new();
    for j in 0..ny {
        for i in 0..nx {
            if rng.chance(density) {
                s.insert((i, j));
            }
        }
    }
    if s.is_empty() {
        s.insert((rng.below(nx), rng.below(ny)));
    }
    s
}

/// A cell set that is a topological disk without pinch points: grown from a seed cell by adding
/// edge-neighbours only while the 3x3 neighbourhood test says the addition keeps it simple.
pub fn disk_cells(rng: &mut Rng, nx: usize, ny: usize, target: usize) -> BTreeSet<(usize, usize)> {
    let mut s: BTreeSet<(usize, usize)> = BTreeSet::new();
    let seed = (rng.below(nx), rng.below(ny));
    s.insert(seed);
    let mut frontier: Vec<(usize, usize)> = vec![seed];
    let mut attempts = 0;
    while s.len() < target && !frontier.is_empty() && attempts < target * 40 {
        attempts += 1;
        let k = rng.below(frontier.len());
        let (ci, cj) = frontier[k];
        let dirs = [(1i64, 0i64), (-1, 0), (0, 1), (0, -1)];
        let (dx, dy) = dirs[rng.below(4)];
        let (ni, nj) = (ci as i64 + dx, cj as i64 + dy);
        if ni < 0 || nj < 0 || ni >= nx as i64 || nj >= ny as i64 {
            continue;
        }
        let cand = (ni as usize, nj as usize);
        if s.contains(&cand) {
            if rng.chance(0.05) {
                frontier.swap_remove(k);
            }
            continue;
        }
        if keeps_simple(&s, cand) {
            s.insert(cand);
            frontier.push(cand);
        }
    }
    s
}

/// Adding `c` to an edge-connected, hole-free, pinch-free cell set keeps those properties iff the
/// occupied cells among its 8 ring neighbours form exactly one contiguous circular run which is
/// neither the whole ring nor a lone diagonal cell (the standard simple-point test).
fn keeps_simple(s: &BTreeSet<(usize, usize)>, c: (usize, usize)) -> bool {
    let ring = [(1i64, 0i64), (1, 1), (0, 1), (-1, 1), (-1, 0), (-1, -1), (0, -1), (1, -1)];
    let occ: Vec<bool> = ring
        .iter()
        .map(|&(dx, dy)| {
            let (x, y) = (c.0 as i64 + dx, c.1 as i64 + dy);
            x >= 0 && y >= 0 && s.contains(&(x as usize, y as usize))
        })
        .collect();
    let count = occ.iter().filter(|&&b| b).count();
    if count == 0 || count == 8 {
        return false;
    }
    let runs = (0..8).filter(|&k| occ[k] && !occ[(k + 7) % 8]).count();
    if runs != 1 {
        return false;
    }
    if count == 1 && (occ[1] || occ[3] || occ[5] || occ[7]) {
        return false;
    }
    true
}

/// Open tube: `around` segments, `along` rings of quads.
pub fn tube(around: usize, along: usize, radius: f64, length: f64) -> M {
    let mut v = Vec::new();
    for j in 0..=along {
        for i in 0..around {
            let a = i as f64 / around as f64 * std::f64::consts::TAU;
            v.push([radius * a.cos(), radius * a.sin(), length * j as f64 / along as f64]);
        }
    }
    let id = |i: usize, j: usize| (j * around + (i % around)) as u32;
    let mut f = Vec::new();
    for j in 0..along {
        for i in 0..around {
            let (a, b, c, d) = (id(i, j), id(i + 1, j), id(i + 1, j + 1), id(i, j + 1));
            f.push([a, b, c]);
            f.push([a, c, d]);
        }
    }
    M { v, f }
}

/// Regular tetrahedron centred on the origin with unit circumradius, outward normals.
pub fn tetrahedron() -> M {
    let k = 1.0 / 3f64.sqrt();
    M {
        v: vec![[k, k, k], [k, -k, -k], [-k, k, -k], [-k, -k, k]],
        f: vec![[0, 1, 2], [0, 2, 3], [0, 3, 1], [1, 3, 2]],
    }
}

pub fn octahedron() -> M {
    M {
        v: vec![
            [1.0, 0.0, 0.0],
            [-1.0, 0.0, 0.0],
            [0.0, 1.0, 0.0],
            [0.0, -1.0, 0.0],
            [0.0, 0.0, 1.0],
            [0.0, 0.0, -1.0],
        ],
        f: vec![
            [0, 2, 4],
            [2, 1, 4],
            [1, 3, 4],
            [3, 0, 4],
            [2, 0, 5],
            [1, 2, 5],
            [3, 1, 5],
            [0, 3, 5],
        ],
    }
}

/// The same face table as `Mesh::create_box`, written independently (outward normals).
pub fn cuboid(w: f64, h: f64, d: f64) -> M {
    let v = vec![
        [0.0, 0.0, 0.0],
        [w, 0.0, 0.0],
        [w, h, 0.0],
        [0.0, h, 0.0],
        [0.0, 0.0, d],
        [w, 0.0, d],
        [w, h, d],
        [0.0, h, d],
    ];
    let f = vec![
        [0, 2, 1],
        [0, 3, 2],
        [4, 5, 6],
        [4, 6, 7],
        [0, 1, 5],
        [0, 5, 4],
        [1, 2, 6],
        [1, 6, 5],
        [2, 3, 7],
        [2, 7, 6],
        [3, 0, 4],
        [3, 4, 7],
    ];
    M { v, f }
}

/// 1-to-4 subdivision (midpoints), optionally projecting new vertices to the unit sphere.
pub fn subdivide(m: &M, to_sphere: bool) -> M {
    let mut v = m.v.clone();
    let mut mid: BTreeMap<(u32, u32), u32> = BTreeMap::new();
    let mut f = Vec::new();
    for face in &m.f {
        let mut mids = [0u32; 3];
        for k in 0..3 {
            let (a, b) = (face[k], face[(k + 1) % 3]);
            let key = ekey(a, b);
            let id = *mid.entry(key).or_insert_with(|| {
                let p = scale(add(m.v[a as usize], m.v[b as usize]), 0.5);
                v.push(if to_sphere { unit(p) } else { p });
                (v.len() - 1) as u32
            });
            mids[k] = id;
        }
        f.push([face[0], mids[0], mids[2]]);
        f.push([face[1], mids[1], mids[0]]);
        f.push([face[2], mids[2], mids[1]]);
        f.push([mids[0], mids[1], mids[2]]);
    }
    M { v, f }
}

/// Random distinct triples over `nv` vertices, kept while no undirected edge exceeds two faces.
pub fn arbitrary_faces(rng: &mut Rng, nv: usize, nf: usize) -> Vec<[u32; 3]> {
    let mut faces: Vec<[u32; 3]> = Vec::new();
    let mut counts: BTreeMap<(u32, u32), usize> = BTreeMap::new();
    let mut tries = 0;
    while faces.len() < nf && tries < nf * 30 {
        tries += 1;
        let a = rng.below(nv) as u32;
        let b = rng.below(nv) as u32;
        let c = rng.below(nv) as u32;
        if a == b || b == c || a == c {
            continue;
        }
        let es = [ekey(a, b), ekey(b, c), ekey(c, a)];
        if es.iter().any(|e| counts.get(e).copied().unwrap_or(0) >= 2) {
            continue;
        }
        for e in es {
            *counts.entry(e).or_insert(0) += 1;
        }
        faces.push([a, b, c]);
    }
    if faces.is_empty() {
        faces.push([0, 1, 2]);
    }
    faces
}

/// `n` distinct random positions in a cube of side `side`.
pub fn scattered_vertices(rng: &mut Rng, n: usize, side: f64) -> Vec<[f64; 3]> {
    let mut seen = BTreeSet::new();
    let mut v = Vec::new();
    while v.len() < n {
        let p = [rng.uniform(0.0, side), rng.uniform(0.0, side), rng.uniform(0.0, side)];
        let key = [p[0].to_bits(), p[1].to_bits(), p[2].to_bits()];
        if seen.insert(key) {
            v.push(p);
        }
    }
    v
}

// ---------------------------------------------------------------------------------------------
// transformations

pub fn flip_faces(rng: &mut Rng, m: &mut M, prob: f64) -> usize {
    let mut n = 0;
    if prob <= 0.0 {
        return 0;
    }
    for f in m.f.iter_mut() {
        if rng.chance(prob) {
            f.swap(1, 2);
            n += 1;
        }
    }
    n
}

pub fn rotate_triples(rng: &mut Rng, m: &mut M) {
    for f in m.f.iter_mut() {
        let r = rng.below(3);
        f.rotate_left(r);
    }
}

pub fn shuffle_faces(rng: &mut Rng, m: &mut M) {
    rng.shuffle(&mut m.f);
}

pub fn renumber_vertices(rng: &mut Rng, m: &mut M) {
    let n = m.v.len();
    let mut perm: Vec<usize> = (0..n).collect();
    rng.shuffle(&mut perm);
    // perm[old] = new
    let mut nv = vec![[0.0; 3]; n];
    for (old, &new) in perm.iter().enumerate() {
        nv[new] = m.v[old];
    }
    m.v = nv;
    for f in m.f.iter_mut() {
        for k in 0..3 {
            f[k] = perm[f[k] as usize] as u32;
        }
    }
}

/// Disjoint union; with `share_vertex` the first used vertex of `b` is identified with a
/// boundary (or any) vertex of `a`, giving faces that touch only at that vertex.
pub fn union(a: &M, b: &M, share: Option<(u32, u32)>) -> M {
    let off = a.v.len() as u32;
    let mut v = a.v.clone();
    v.extend(b.v.iter().copied());
    let mut f = a.f.clone();
    for face in &b.f {
        let mut nf = [0u32; 3];
        for k in 0..3 {
            nf[k] = match share {
                Some((va, vb)) if face[k] == vb => va,
                _ => face[k] + off,
            };
        }
        f.push(nf);
    }
    M { v, f }
}

pub fn translate(m: &mut M, t: [f64; 3]) {
    for p in m.v.iter_mut() {
        *p = add(*p, t);
    }
}

/// Random rotation matrix (from a random unit quaternion) and translation.
#[derive(Serialize, Deserialize, Clone, Debug, PartialEq)]
pub struct Pose {
    pub r: [[f64; 3]; 3],
    pub t: [f64; 3],
}

impl Pose {
    pub fn identity() -> Pose {
        Pose { r: [[1.0, 0.0, 0.0], [0.0, 1.0, 0.0], [0.0, 0.0, 1.0]], t: [0.0; 3] }
    }
    pub fn random(rng: &mut Rng, max_t: f64) -> Pose {
        let (mut q, mut n);
        loop {
            q = [rng.normal(), rng.normal(), rng.normal(), rng.normal()];
            n = (q[0] * q[0] + q[1] * q[1] + q[2] * q[2] + q[3] * q[3]).sqrt();
            if n > 1e-3 {
                break;
            }
        }
        let (w, x, y, z) = (q[0] / n, q[1] / n, q[2] / n, q[3] / n);
        let r = [
            [1.0 - 2.0 * (y * y + z * z), 2.0 * (x * y - z * w), 2.0 * (x * z + y * w)],
            [2.0 * (x * y + z * w), 1.0 - 2.0 * (x * x + z * z), 2.0 * (y * z - x * w)],
            [2.0 * (x * z - y * w), 2.0 * (y * z + x * w), 1.0 - 2.0 * (x * x + y * y)],
        ];
        let t = [
            rng.uniform(-max_t, max_t),
            rng.uniform(-max_t, max_t),
            rng.uniform(-max_t, max_t),
        ];
        Pose { r, t }
    }
    pub fn apply(&self, p: [f64; 3]) -> [f64; 3] {
        [
            dot(self.r[0], p) + self.t[0],
            dot(self.r[1], p) + self.t[1],
            dot(self.r[2], p) + self.t[2],
        ]
    }
    pub fn apply_mesh(&self, m: &M) -> M {
        M { v: m.v.iter().map(|&p| self.apply(p)).collect(), f: m.f.clone() }
    }
}

/// Generic delta-debugging candidates: remove halves, quarters, ... then single elements.
pub fn chunk_removals<T: Clone>(items: &[T], min_len: usize) -> Vec<Vec<T>> {
    let n = items.len();
    let mut out = Vec::new();
    if n <= min_len {
        return out;
    }
    let mut chunk = n / 2;
    while chunk >= 1 {
        let mut start = 0;
        let mut produced = 0;
        while start < n && produced < 64 {
            let end = (start + chunk).min(n);
            if n - (end - start) >= min_len {
                let mut c = Vec::with_capacity(n - (end - start));
                c.extend_from_slice(&items[..start]);
                c.extend_from_slice(&items[end..]);
                out.push(c);
                produced += 1;
            }
            start = end;
        }
        if chunk == 1 {
            break;
        }
        chunk /= 2;
    }
    out
}

/// Closest point on a triangle to `p` (Ericson, Real-Time Collision Detection 5.1.5).
pub fn closest_on_triangle(p: [f64; 3], t: &[[f64; 3]; 3]) -> [f64; 3] {
    let (a, b, c) = (t[0], t[1], t[2]);
    let ab = sub(b, a);
    let ac = sub(c, a);
    let ap = sub(p, a);
    let d1 = dot(ab, ap);
    let d2 = dot(ac, ap);
    if d1 <= 0.0 && d2 <= 0.0 {
        return a;
    }
    let bp = sub(p, b);
    let d3 = dot(ab, bp);
    let d4 = dot(ac, bp);
    if d3 >= 0.0 && d4 <= d3 {
        return b;
    }
    let vc = d1 * d4 - d3 * d2;
    if vc <= 0.0 && d1 >= 0.0 && d3 <= 0.0 {
        let v = d1 / (d1 - d3);
        return add(a, scale(ab, v));
    }
    let cp = sub(p, c);
    let d5 = dot(ab, cp);
    let d6 = dot(ac, cp);
    if d6 >= 0.0 && d5 <= d6 {
        return c;
    }
    let vb = d5 * d2 - d1 * d6;
    if vb <= 0.0 && d2 >= 0.0 && d6 <= 0.0 {
        let w = d2 / (d2 - d6);
        return add(a, scale(ac, w));
    }
    let va = d3 * d6 - d5 * d4;
    if va <= 0.0 && (d4 - d3) >= 0.0 && (d5 - d6) >= 0.0 {
        let w = (d4 - d3) / ((d4 - d3) + (d5 - d6));
        return add(b, scale(sub(c, b), w));
    }
    let denom = 1.0 / (va + vb + vc);
    let v = vb * denom;
    let w = vc * denom;
    add(a, add(scale(ab, v), scale(ac, w)))
}

pub fn point_triangle_distance(p: [f64; 3], t: &[[f64; 3]; 3]) -> f64 {
    dist3(p, closest_on_triangle(p, t))
}
