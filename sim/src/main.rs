//! engeom-sim: deterministic simulation with fault injection for mattj23/engeom.
//! See /verif/DESIGN.md.

mod c12;
mod c14;
mod c15;
mod c20;
mod core;
mod env;
mod meshgen;
mod rng;
mod runner;

use crate::core::Tier;
use runner::Options;
use std::path::PathBuf;

fn usage() -> ! {
    eprintln!("usage: engeom-sim <C12|C14|C15|C20> [--tier quick|thorough] [--seed N] [--workers N] [--runs N] [--replay FILE] [--out-fd N] [--no-evidence] [--verif-dir DIR]");
    std::process::exit(2);
}

fn main() {
    let args: Vec<String> = std::env::args().collect();
    if args.len() < 2 {
        usage();
    }
    let prop = args[1].clone();
    if prop == "diag-flatten" {
        // diagnostic, not a check: flatten the mesh of a C20 replay file with the library as it
        // is and print how far the edge lengths move
        diag_flatten(&args[2]);
        return;
    }
    let mut opt = Options {
        tier: match std::env::var("VERIF_TIER").ok().as_deref() {
            Some("thorough") => Tier::Thorough,
            _ => Tier::Quick,
        },
        seed: std::env::var("VERIF_SEED").ok().and_then(|s| s.parse().ok()).unwrap_or(1),
        workers: std::thread::available_parallelism().map(|n| n.get()).unwrap_or(4).min(16),
        runs: std::env::var("VERIF_RUNS").ok().and_then(|s| s.parse().ok()),
        replay: None,
        verif_dir: PathBuf::from("/verif"),
        write_evidence: true,
        only_run: None,
        exhaust: std::env::var("VERIF_EXHAUST").is_ok(),
    };
    let mut tier_from_arg = None;
    let mut i = 2;
    while i < args.len() {
        let need = |i: usize| -> &str {
            if i + 1 >= args.len() {
                usage();
            }
            &args[i + 1]
        };
        match args[i].as_str() {
            "--tier" => {
                tier_from_arg = Some(match need(i) {
                    "quick" => Tier::Quick,
                    "thorough" => Tier::Thorough,
                    _ => usage(),
                });
                i += 1;
            }
            "--seed" => {
                opt.seed = need(i).parse().unwrap_or_else(|_| usage());
                i += 1;
            }
            "--workers" => {
                opt.workers = need(i).parse().unwrap_or_else(|_| usage());
                i += 1;
            }
            "--runs" => {
                opt.runs = Some(need(i).parse().unwrap_or_else(|_| usage()));
                i += 1;
            }
            "--replay" => {
                opt.replay = Some(PathBuf::from(need(i)));
                i += 1;
            }
            "--out-fd" => {
                runner::set_out_fd(need(i).parse().unwrap_or_else(|_| usage()));
                i += 1;
            }
            "--verif-dir" => {
                opt.verif_dir = PathBuf::from(need(i));
                i += 1;
            }
            "--no-evidence" => opt.write_evidence = false,
            "--only-run" => {
                opt.only_run = Some(need(i).parse().unwrap_or_else(|_| usage()));
                i += 1;
            }
            _ => usage(),
        }
        i += 1;
    }
    // VERIF_TIER, when set, overrides the tier given on the command line
    if std::env::var("VERIF_TIER").is_err() {
        if let Some(t) = tier_from_arg {
            opt.tier = t;
        }
    }
    opt.workers = opt.workers.max(1);

    env::install_panic_hook();
    // faer's rayon pool is stubbed out: sequential code path (DESIGN 3.1)
    faer::set_global_parallelism(faer::Par::Seq);

    let code = match prop.as_str() {
        "C12" => runner::check(&c12::C12, &opt),
        "C14" => runner::check(&c14::C14, &opt),
        "C15" => runner::check(&c15::C15, &opt),
        "C20" => runner::check(&c20::C20, &opt),
        _ => {
            eprintln!("unknown or unclaimed property {}", prop);
            2
        }
    };
    std::process::exit(code);
}

fn diag_flatten(path: &str) {
    use engeom::{Mesh, Point3};
    let j: serde_json::Value = serde_json::from_str(&std::fs::read_to_string(path).expect("read")).expect("json");
    let m = &j["scenario"]["mesh"];
    let v: Vec<[f64; 3]> = serde_json::from_value(m["v"].clone()).unwrap();
    let f: Vec<[u32; 3]> = serde_json::from_value(m["f"].clone()).unwrap();
    faer::set_global_parallelism(faer::Par::Seq);
    let mesh = Mesh::new(v.iter().map(|p| Point3::new(p[0], p[1], p[2])).collect(), f.clone(), false);
    let e = mesh.calc_edges().expect("edges");
    let uv = e.boundary_first_flatten().expect("flatten");
    let d3 = |a: usize, b: usize| ((v[a][0] - v[b][0]).powi(2) + (v[a][1] - v[b][1]).powi(2) + (v[a][2] - v[b][2]).powi(2)).sqrt();
    let d2 = |a: usize, b: usize| ((uv[a].x - uv[b].x).powi(2) + (uv[a].y - uv[b].y).powi(2)).sqrt();
    let (mut worst, mut worst_rel, mut lmax, mut at) = (0.0f64, 0.0f64, 0.0f64, (0usize, 0usize));
    for t in &f {
        for k in 0..3 {
            let (a, b) = (t[k] as usize, t[(k + 1) % 3] as usize);
            let (l3, l2) = (d3(a, b), d2(a, b));
            lmax = lmax.max(l3);
            if (l3 - l2).abs() > worst {
                worst = (l3 - l2).abs();
                at = (a, b);
            }
            worst_rel = worst_rel.max((l3 - l2).abs() / l3);
        }
    }
    let mut size = 0.0f64;
    for k in 0..3 {
        let lo = v.iter().fold(f64::INFINITY, |m, p| m.min(p[k]));
        let hi = v.iter().fold(f64::NEG_INFINITY, |m, p| m.max(p[k]));
        size += (hi - lo).powi(2);
    }
    let size = size.sqrt();
    println!("vertices {} faces {} size {:.4e} lmax {:.4e} worst |dl| {:.4e} (= {:.3e} lmax = {:.3e} size) at edge {:?} (length {:.4e}), worst relative {:.3e}", v.len(), f.len(), size, lmax, worst, worst / lmax, worst / size, at, d3(at.0, at.1), worst_rel);
}
