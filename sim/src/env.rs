//! The simulated environment: every hash-container order and every random word that engeom
//! consumes is a *decision* taken here, logged, and replayable from an explicit list.

use crate::rng::{splitmix, Digest, Rng};
use engeom::verif::{self, Env, Policy};
use serde::{Deserialize, Serialize};
use std::cell::RefCell;
use std::panic::{catch_unwind, AssertUnwindSafe};
use std::rc::Rc;

#[derive(Serialize, Deserialize, Clone, Copy, Debug, PartialEq, Eq, PartialOrd, Ord)]
pub enum Pol {
    Sip(u64, u64),
    Identity,
    Reverse,
    Mul(u64),
    Collide(u64),
}

impl Pol {
    pub fn to_policy(self) -> Policy {
        match self {
            Pol::Sip(a, b) => Policy::Sip(a, b),
            Pol::Identity => Policy::Identity,
            Pol::Reverse => Policy::Reverse,
            Pol::Mul(m) => Policy::Mul(m),
            Pol::Collide(m) => Policy::Collide(m),
        }
    }
    pub fn kind(self) -> usize {
        match self {
            Pol::Sip(..) => 0,
            Pol::Identity => 1,
            Pol::Reverse => 2,
            Pol::Mul(_) => 3,
            Pol::Collide(_) => 4,
        }
    }
}

pub const ORDER_KINDS: [&str; 5] = [
    "order:Sip",
    "order:Identity",
    "order:Reverse",
    "order:Mul",
    "order:Collide",
];

#[derive(Serialize, Deserialize, Clone, Copy, Debug, PartialEq, Eq, PartialOrd, Ord)]
pub enum DrawKind {
    Uniform,
    Zero,
    AllOnes,
    Boundary,
}

pub const DRAW_KINDS: [&str; 4] = ["draw:Uniform", "draw:Zero", "draw:AllOnes", "draw:Boundary"];

impl DrawKind {
    pub fn idx(self) -> usize {
        match self {
            DrawKind::Uniform => 0,
            DrawKind::Zero => 1,
            DrawKind::AllOnes => 2,
            DrawKind::Boundary => 3,
        }
    }
}

#[derive(Serialize, Deserialize, Clone, Copy, Debug, PartialEq, Eq)]
pub struct Draw {
    pub bits: u64,
    pub kind: DrawKind,
}

/// One decision vector: the explicit schedule of a simulated execution.
#[derive(Serialize, Deserialize, Clone, Debug, Default, PartialEq, Eq)]
pub struct Vector {
    pub orders: Vec<Pol>,
    pub draws: Vec<Draw>,
}

impl Vector {
    pub fn digest(&self) -> Digest {
        let mut d = Digest::new();
        d.u64(self.orders.len() as u64);
        for o in &self.orders {
            match *o {
                Pol::Sip(a, b) => {
                    d.u64(0);
                    d.u64(a);
                    d.u64(b)
                }
                Pol::Identity => d.u64(1),
                Pol::Reverse => d.u64(2),
                Pol::Mul(m) => {
                    d.u64(3);
                    d.u64(m)
                }
                Pol::Collide(m) => {
                    d.u64(4);
                    d.u64(m)
                }
            }
        }
        d.u64(self.draws.len() as u64);
        for w in &self.draws {
            d.u64(w.bits);
        }
        d
    }
}

/// Per-run configuration of what the decision generator may produce ("swarm").
#[derive(Clone, Debug)]
pub struct Swarm {
    /// relative weights of Sip / Identity / Reverse / Mul / Collide
    pub order_weights: [u32; 5],
    /// probability that a random word is replaced by an injected extreme
    pub fault_rate: f64,
    /// raw words that put `r * total` next to a breakpoint of the workload (may be empty)
    pub boundary_bits: Vec<u64>,
}

impl Swarm {
    pub fn plain() -> Self {
        Swarm {
            order_weights: [4, 1, 1, 1, 0],
            fault_rate: 0.0,
            boundary_bits: Vec::new(),
        }
    }

    fn order(&self, rng: &mut Rng) -> Pol {
        match rng.weighted(&self.order_weights) {
            0 => Pol::Sip(rng.next_u64(), rng.next_u64()),
            1 => Pol::Identity,
            2 => Pol::Reverse,
            3 => Pol::Mul(rng.next_u64() | 1),
            _ => Pol::Collide(1 + rng.below(7) as u64),
        }
    }

    fn draw(&self, rng: &mut Rng) -> Draw {
        let bits = rng.next_u64();
        if self.fault_rate > 0.0 && rng.chance(self.fault_rate) {
            let n = if self.boundary_bits.is_empty() { 2 } else { 4 };
            match rng.below(n) {
                0 => Draw { bits: 0, kind: DrawKind::Zero },
                1 => Draw { bits: u64::MAX, kind: DrawKind::AllOnes },
                _ => Draw {
                    bits: *rng.pick(&self.boundary_bits),
                    kind: DrawKind::Boundary,
                },
            }
        } else {
            Draw { bits, kind: DrawKind::Uniform }
        }
    }
}

#[derive(Clone, Debug, Default)]
pub struct Fired {
    pub orders: [u64; 5],
    pub draws: [u64; 4],
    pub budget_exhausted: u64,
    pub panics: u64,
}

impl Fired {
    pub fn add(&mut self, o: &Fired) {
        for i in 0..5 {
            self.orders[i] += o.orders[i];
        }
        for i in 0..4 {
            self.draws[i] += o.draws[i];
        }
        self.budget_exhausted += o.budget_exhausted;
        self.panics += o.panics;
    }
}

struct BudgetStop;

/// Beyond this many container constructions in one execution the schedule is no longer recorded
/// (replay falls back to the default policy there); the step budget ends such an execution.
const MAX_RECORDED_ORDERS: usize = 50_000;

pub struct EnvState {
    given: Vector,
    next_order: usize,
    next_draw: usize,
    gen: Option<(Rng, Swarm)>,
    fallback: u64,
    pub consumed: Vector,
    pub order_sites: Vec<&'static str>,
    pub ticks_total: u64,
    op_ticks: u64,
    op_budget: u64,
    stopped: bool,
    pub fired: Fired,
    pub log: Digest,
}

struct Handle(Rc<RefCell<EnvState>>);

impl Env for Handle {
    fn map_policy(&mut self, site: &'static str) -> Policy {
        let mut s = self.0.borrow_mut();
        let i = s.next_order;
        s.next_order += 1;
        let pol = if i < s.given.orders.len() {
            s.given.orders[i]
        } else if let Some((rng, swarm)) = s.gen.as_mut() {
            swarm.order(rng)
        } else {
            Pol::Identity
        };
        // constructing a container is an interaction with the environment like any other: it
        // counts against the step budget (a loop that only builds containers must not run free),
        // and the recorded schedule is capped so that such a loop cannot exhaust memory either
        if s.consumed.orders.len() < MAX_RECORDED_ORDERS {
            s.consumed.orders.push(pol);
            s.order_sites.push(site);
        }
        s.fired.orders[pol.kind()] += 1;
        s.log.str(site);
        s.log.u64(pol.kind() as u64);
        s.ticks_total += 1;
        if !s.stopped {
            s.op_ticks += 1;
            if s.op_ticks > s.op_budget {
                s.stopped = true;
                s.fired.budget_exhausted += 1;
                drop(s);
                std::panic::panic_any(BudgetStop);
            }
        }
        pol.to_policy()
    }

    fn tick(&mut self, _site: &'static str) {
        let mut s = self.0.borrow_mut();
        s.ticks_total += 1;
        if s.stopped {
            return;
        }
        s.op_ticks += 1;
        if s.op_ticks > s.op_budget {
            s.stopped = true;
            s.fired.budget_exhausted += 1;
            drop(s);
            std::panic::panic_any(BudgetStop);
        }
    }

    fn next_u64(&mut self, _site: &'static str) -> u64 {
        let mut s = self.0.borrow_mut();
        s.ticks_total += 1;
        let i = s.next_draw;
        s.next_draw += 1;
        let d = if i < s.given.draws.len() {
            s.given.draws[i]
        } else if let Some((rng, swarm)) = s.gen.as_mut() {
            swarm.draw(rng)
        } else {
            Draw { bits: splitmix(&mut s.fallback), kind: DrawKind::Uniform }
        };
        s.consumed.draws.push(d);
        s.fired.draws[d.kind.idx()] += 1;
        s.log.u64(d.bits);
        if !s.stopped {
            s.op_ticks += 1;
            if s.op_ticks > s.op_budget {
                s.stopped = true;
                s.fired.budget_exhausted += 1;
                drop(s);
                std::panic::panic_any(BudgetStop);
            }
        }
        d.bits
    }
}

#[derive(Clone, Debug)]
pub enum OpResult<T> {
    Done(T),
    Panic(String),
    Budget(u64),
}

impl<T> OpResult<T> {
    pub fn done(&self) -> Option<&T> {
        match self {
            OpResult::Done(t) => Some(t),
            _ => None,
        }
    }
    pub fn map<U>(self, f: impl FnOnce(T) -> U) -> OpResult<U> {
        match self {
            OpResult::Done(t) => OpResult::Done(f(t)),
            OpResult::Panic(m) => OpResult::Panic(m),
            OpResult::Budget(b) => OpResult::Budget(b),
        }
    }
}

thread_local! {
    static LAST_PANIC: RefCell<String> = const { RefCell::new(String::new()) };
    static IN_OP: std::cell::Cell<bool> = const { std::cell::Cell::new(false) };
    /// the same flag, shared with the watchdog thread of the runner (which must tell a library
    /// operation that never reaches a seam from a loop in generator or oracle code)
    pub static IN_OP_SHARED: std::cell::RefCell<Option<std::sync::Arc<std::sync::atomic::AtomicU64>>> = const { std::cell::RefCell::new(None) };
}

/// Installed once per process: records the panic message for the oracle and prints nothing.
pub fn install_panic_hook() {
    std::panic::set_hook(Box::new(|info| {
        let msg = if let Some(s) = info.payload().downcast_ref::<&str>() {
            s.to_string()
        } else if let Some(s) = info.payload().downcast_ref::<String>() {
            s.clone()
        } else {
            String::new()
        };
        let loc = info
            .location()
            .map(|l| {
                let f = l.file();
                let f = f.rsplit("/repo/").next().unwrap_or(f);
                format!("{}:{}", f, l.line())
            })
            .unwrap_or_default();
        if !IN_OP.with(|f| f.get()) {
            // a panic outside a simulated library operation is a defect of the harness itself
            eprintln!("HARNESS-ERROR panic in harness code: {} @ {}", msg, loc);
        }
        LAST_PANIC.with(|p| *p.borrow_mut() = format!("{} @ {}", msg, loc));
    }));
}

/// One simulated execution: owns the environment of the current thread while it lives.
pub struct Sim {
    state: Rc<RefCell<EnvState>>,
}

pub struct EnvReport {
    pub consumed: Vector,
    pub order_sites: Vec<&'static str>,
    pub ticks: u64,
    pub fired: Fired,
    pub log: Digest,
}

impl Sim {
    /// `given` is consumed first; beyond it decisions come from `gen`, or from fixed defaults
    /// (Identity order, a fixed splitmix stream) when `gen` is `None` (replay, minimisation).
    pub fn new(given: Vector, gen: Option<(Rng, Swarm)>) -> Sim {
        let state = Rc::new(RefCell::new(EnvState {
            given,
            next_order: 0,
            next_draw: 0,
            gen,
            fallback: 0x5EED_5EED_5EED_5EED,
            consumed: Vector::default(),
            order_sites: Vec::new(),
            ticks_total: 0,
            op_ticks: 0,
            op_budget: u64::MAX,
            stopped: false,
            fired: Fired::default(),
            log: Digest::new(),
        }));
        verif::install(Some(Box::new(Handle(state.clone()))));
        Sim { state }
    }

    /// Run one library operation under a tick budget, catching panics.
    pub fn op<T>(&self, name: &'static str, budget: u64, f: impl FnOnce() -> T) -> OpResult<T> {
        {
            let mut s = self.state.borrow_mut();
            s.op_ticks = 0;
            s.op_budget = budget;
            s.stopped = false;
            s.log.str(name);
        }
        IN_OP.with(|f| f.set(true));
        // odd = inside a library operation; the value names the operation instance
        IN_OP_SHARED.with(|f| {
            if let Some(a) = f.borrow().as_ref() {
                a.fetch_add(1, std::sync::atomic::Ordering::Relaxed);
            }
        });
        let r = catch_unwind(AssertUnwindSafe(f));
        IN_OP.with(|f| f.set(false));
        IN_OP_SHARED.with(|f| {
            if let Some(a) = f.borrow().as_ref() {
                a.fetch_add(1, std::sync::atomic::Ordering::Relaxed);
            }
        });
        let mut s = self.state.borrow_mut();
        s.op_budget = u64::MAX;
        let was_stopped = s.stopped;
        s.stopped = false;
        match r {
            Ok(t) => {
                s.log.u64(1);
                OpResult::Done(t)
            }
            Err(payload) => {
                if payload.downcast_ref::<BudgetStop>().is_some() || was_stopped {
                    s.log.u64(2);
                    OpResult::Budget(budget)
                } else {
                    s.fired.panics += 1;
                    s.log.u64(3);
                    OpResult::Panic(LAST_PANIC.with(|p| p.borrow().clone()))
                }
            }
        }
    }

    pub fn ticks(&self) -> u64 {
        self.state.borrow().ticks_total
    }

    /// Start consuming the decision list from its beginning again: what follows sees exactly the
    /// decisions consumed so far (same hash orders, same random words), then new ones. Used to
    /// run one workload twice under the *same* schedule, which production can never do.
    pub fn rewind(&self) {
        let mut s = self.state.borrow_mut();
        if s.consumed.orders.len() >= s.given.orders.len() {
            s.given.orders = s.consumed.orders.clone();
        }
        if s.consumed.draws.len() >= s.given.draws.len() {
            s.given.draws = s.consumed.draws.clone();
        }
        s.consumed = Vector::default();
        s.order_sites.clear();
        s.next_order = 0;
        s.next_draw = 0;
        s.log.u64(0xFEED);
    }

    pub fn finish(self) -> EnvReport {
        verif::install(None);
        let s = self.state.borrow();
        EnvReport {
            consumed: s.consumed.clone(),
            order_sites: s.order_sites.clone(),
            ticks: s.ticks_total,
            fired: s.fired.clone(),
            log: s.log,
        }
    }
}

impl Drop for Sim {
    fn drop(&mut self) {
        verif::install(None);
    }
}
