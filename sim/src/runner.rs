//! Seeded search over scenarios and decision vectors, minimisation, replay, evidence.

use crate::core::*;
use crate::env::{EnvReport, Fired, Sim, Vector, DRAW_KINDS, ORDER_KINDS};
use crate::rng::{mix, Digest, Rng};
use serde::{Deserialize, Serialize};
use serde_json::{json, Value};
use std::collections::{BTreeMap, BTreeSet};
use std::io::Write;
use std::path::{Path, PathBuf};
use std::sync::atomic::{AtomicU64, Ordering};
use std::sync::Mutex;
use std::time::Instant;

pub struct Options {
    pub tier: Tier,
    pub seed: u64,
    pub workers: usize,
    pub runs: Option<u64>,
    pub replay: Option<PathBuf>,
    pub verif_dir: PathBuf,
    pub write_evidence: bool,
    pub only_run: Option<u64>,
    /// keep searching after a batch with a violating run (statistics over the whole tier)
    pub exhaust: bool,
}

static OUT: Mutex<Option<std::fs::File>> = Mutex::new(None);

/// Result lines go to the descriptor the wrapper saved; library chatter on fd 1 goes to /dev/null.
pub fn set_out_fd(fd: i32) {
    use std::os::fd::FromRawFd;
    let f = unsafe { std::fs::File::from_raw_fd(fd) };
    *OUT.lock().unwrap() = Some(f);
}

pub fn out(line: &str) {
    let mut g = OUT.lock().unwrap();
    match g.as_mut() {
        Some(f) => {
            let _ = writeln!(f, "{}", line);
        }
        None => println!("{}", line),
    }
}

#[derive(Serialize, Deserialize, Clone, Debug)]
pub struct KnownFinding {
    pub property: String,
    pub id: String,
    pub status: String,
    #[serde(default)]
    pub commit: Option<String>,
    pub class: String,
    pub operation: String,
    pub fingerprint: String,
    pub what_fails: String,
    /// open findings: the specific failing input, a replay file relative to the /verif directory
    #[serde(default)]
    pub replay: Option<String>,
}

#[derive(Serialize, Deserialize, Clone, Debug, Default)]
pub struct KnownFindings {
    pub findings: Vec<KnownFinding>,
}

fn load_known(dir: &Path) -> Result<KnownFindings, String> {
    let p = dir.join("known_findings.json");
    if !p.exists() {
        return Ok(KnownFindings::default());
    }
    let s = std::fs::read_to_string(&p).map_err(|e| e.to_string())?;
    serde_json::from_str(&s).map_err(|e| format!("known_findings.json: {}", e))
}

#[derive(Serialize, Deserialize, Clone, Debug)]
pub struct ReplayVector {
    pub orders: Vec<crate::env::Pol>,
    pub draws: Vec<crate::env::Draw>,
    #[serde(default)]
    pub sites: Vec<String>,
}

#[derive(Serialize, Deserialize, Clone, Debug)]
pub struct ReplayFile {
    pub engine: String,
    pub property: String,
    pub class: String,
    pub operation: String,
    pub message: String,
    pub seed: u64,
    pub run: u64,
    pub minimised: bool,
    pub scenario: Value,
    pub vectors: Vec<ReplayVector>,
    pub ticks: u64,
    #[serde(default)]
    pub fingerprints: Vec<String>,
}

struct Executed<O> {
    runs: Vec<VectorRun<O>>,
    reports: Vec<EnvReport>,
}

fn execute_vectors<P: Property>(
    p: &P,
    sc: &P::Scenario,
    plans: Vec<(Vector, Option<(Rng, crate::env::Swarm)>)>,
) -> Executed<P::Obs> {
    let mut runs = Vec::new();
    let mut reports = Vec::new();
    for (given, gen) in plans {
        let sim = Sim::new(given, gen);
        let obs = p.execute(sc, &sim);
        let rep = sim.finish();
        runs.push(VectorRun {
            obs,
            consumed: rep.consumed.clone(),
            ticks: rep.ticks,
        });
        reports.push(rep);
    }
    Executed { runs, reports }
}

/// Re-execute explicit vectors (no generator: defaults beyond the list) and judge.
fn evaluate_explicit<P: Property>(
    p: &P,
    sc: &P::Scenario,
    vectors: &[Vector],
) -> (Vec<Violation>, Vec<EnvReport>) {
    let plans = vectors.iter().map(|v| (v.clone(), None)).collect();
    let ex = execute_vectors(p, sc, plans);
    let mut scratch = Stats::default();
    let v = p.judge(sc, &ex.runs, &mut scratch);
    (v, ex.reports)
}

struct Found<S> {
    scenario: S,
    vectors: Vec<Vector>,
    violations: Vec<Violation>,
}

#[derive(Default)]
struct Acc<S> {
    evaluations: u64,
    vector_runs: u64,
    distinct: BTreeSet<Digest>,
    scenarios: BTreeSet<Digest>,
    ticks: u64,
    fired: Fired,
    stats: Stats,
    raw_hist: BTreeMap<usize, u64>,
    log_sum: u64,
    violating: BTreeMap<u64, Found<S>>,
    violating_total: u64,
    viol_kinds: BTreeMap<String, u64>,
    samples: BTreeMap<u64, Value>,
}

const KEEP_VIOLATING: usize = 48;
const KEEP_SAMPLES: usize = 3;

fn one_run<P: Property>(p: &P, opt: &Options, index: u64, acc: &mut Acc<P::Scenario>) {
    let mut rng = Rng::for_run(opt.seed, p.id(), index);
    let sc = p.generate(&mut rng, opt.tier);
    let swarm = p.swarm(&mut rng, &sc);
    let nv = p.vectors(&mut rng, opt.tier, &sc).max(1);
    let plans = (0..nv)
        .map(|_| (Vector::default(), Some((rng.fork(), swarm.clone()))))
        .collect();
    let ex = execute_vectors(p, &sc, plans);
    let violations = p.judge(&sc, &ex.runs, &mut acc.stats);

    acc.evaluations += 1;
    acc.vector_runs += nv as u64;
    let sd = scenario_digest(&sc);
    acc.scenarios.insert(sd);
    let nontrivial = p.nontrivial(&sc);
    let mut raw = BTreeSet::new();
    let mut run_log = Digest::new();
    run_log.absorb(sd);
    for (vr, rep) in ex.runs.iter().zip(ex.reports.iter()) {
        acc.ticks += rep.ticks;
        acc.fired.add(&rep.fired);
        let rd = p.raw_digest(&vr.obs);
        raw.insert(rd);
        run_log.absorb(rep.log);
        run_log.absorb(rd);
        if nontrivial && (!rep.consumed.orders.is_empty() || !rep.consumed.draws.is_empty()) {
            let mut d = Digest::new();
            d.absorb(sd);
            d.absorb(rep.consumed.digest());
            acc.distinct.insert(d);
        }
    }
    *acc.raw_hist.entry(raw.len()).or_insert(0) += 1;
    run_log.u64(violations.len() as u64);
    for v in &violations {
        run_log.str(&v.class);
        run_log.str(&v.operation);
    }
    acc.log_sum = acc.log_sum.wrapping_add(mix(index, run_log.0 ^ run_log.1));

    if acc.samples.len() < KEEP_SAMPLES || acc.samples.keys().next_back().is_some_and(|&k| index < k) {
        let scj = serde_json::to_value(&sc).unwrap();
        let text_len = scj.to_string().len();
        if text_len < 3000 {
            let v0 = &ex.reports[0];
            let sample = json!({
                "run": index,
                "scenario": scj,
                "vectors": nv,
                "vector0": {
                    "orders": v0.consumed.orders.iter().take(12).collect::<Vec<_>>(),
                    "order_sites": v0.order_sites.iter().take(12).collect::<Vec<_>>(),
                    "draws_consumed": v0.consumed.draws.len(),
                    "first_draws": v0.consumed.draws.iter().take(6).collect::<Vec<_>>(),
                    "ticks": v0.ticks,
                },
                "distinct_raw_outputs": raw.len(),
                "violations": violations.len(),
            });
            acc.samples.insert(index, sample);
            while acc.samples.len() > KEEP_SAMPLES {
                let k = *acc.samples.keys().next_back().unwrap();
                acc.samples.remove(&k);
            }
        }
    }

    if !violations.is_empty() {
        let kinds: BTreeSet<String> = violations.iter().map(|v| format!("{}@{}", v.class, v.operation)).collect();
        for k in kinds {
            *acc.viol_kinds.entry(k).or_insert(0) += 1;
        }
        acc.violating_total += 1;
        acc.violating.insert(
            index,
            Found {
                scenario: sc,
                vectors: ex.runs.into_iter().map(|r| r.consumed).collect(),
                violations,
            },
        );
        while acc.violating.len() > KEEP_VIOLATING {
            let k = *acc.violating.keys().next_back().unwrap();
            acc.violating.remove(&k);
        }
    }
}

fn merge<S>(into: &mut Acc<S>, from: Acc<S>) {
    into.evaluations += from.evaluations;
    into.vector_runs += from.vector_runs;
    into.distinct.extend(from.distinct);
    into.scenarios.extend(from.scenarios);
    into.ticks += from.ticks;
    into.fired.add(&from.fired);
    into.stats.merge(&from.stats);
    for (k, v) in from.raw_hist {
        *into.raw_hist.entry(k).or_insert(0) += v;
    }
    into.log_sum = into.log_sum.wrapping_add(from.log_sum);
    into.violating_total += from.violating_total;
    for (k, v) in from.viol_kinds {
        *into.viol_kinds.entry(k).or_insert(0) += v;
    }
    into.violating.extend(from.violating);
    while into.violating.len() > KEEP_VIOLATING {
        let k = *into.violating.keys().next_back().unwrap();
        into.violating.remove(&k);
    }
    into.samples.extend(from.samples);
    while into.samples.len() > KEEP_SAMPLES {
        let k = *into.samples.keys().next_back().unwrap();
        into.samples.remove(&k);
    }
}

const MINIMISE_EVALS: usize = 4000;

/// Delta debugging over scenario and decision vectors; a candidate is accepted only if it fails
/// with the same class at the same operation.
fn minimise<P: Property>(
    p: &P,
    mut sc: P::Scenario,
    mut vectors: Vec<Vector>,
    target: &Violation,
) -> (P::Scenario, Vec<Vector>, Violation, u64) {
    let mut evals = 0usize;
    let mut current = target.clone();
    let mut ticks = 0u64;

    let find = |viol: &[Violation], t: &Violation| viol.iter().find(|v| v.same_kind(t)).cloned();

    // 1. keep only the vectors involved
    if !current.vectors.is_empty() && current.vectors.len() < vectors.len() {
        let sub: Vec<Vector> = current.vectors.iter().map(|&i| vectors[i].clone()).collect();
        let (viol, reps) = evaluate_explicit(p, &sc, &sub);
        evals += 1;
        if let Some(v) = find(&viol, &current) {
            vectors = reps.iter().map(|r| r.consumed.clone()).collect();
            ticks = reps.iter().map(|r| r.ticks).sum();
            current = v;
        }
    }
    // a cross-vector violation may also show with a single vector against the model
    if vectors.len() > 1 {
        for i in 0..vectors.len() {
            let sub = vec![vectors[i].clone()];
            let (viol, reps) = evaluate_explicit(p, &sc, &sub);
            evals += 1;
            if let Some(v) = find(&viol, &current) {
                vectors = reps.iter().map(|r| r.consumed.clone()).collect();
                ticks = reps.iter().map(|r| r.ticks).sum();
                current = v;
                break;
            }
        }
    }

    let mut progress = true;
    while progress && evals < MINIMISE_EVALS {
        progress = false;
        // 2. scenario
        'scenario: loop {
            let cands = p.shrink(&sc);
            for c in cands {
                if evals >= MINIMISE_EVALS {
                    break 'scenario;
                }
                if !p.valid(&c) {
                    continue;
                }
                let (viol, reps) = evaluate_explicit(p, &c, &vectors);
                evals += 1;
                if let Some(v) = find(&viol, &current) {
                    sc = c;
                    vectors = reps.iter().map(|r| r.consumed.clone()).collect();
                    ticks = reps.iter().map(|r| r.ticks).sum();
                    current = v;
                    progress = true;
                    continue 'scenario;
                }
            }
            break;
        }
        // 3. decisions: defaults, truncation
        let mut cands: Vec<Vec<Vector>> = Vec::new();
        for vi in 0..vectors.len() {
            if vectors[vi].orders.iter().any(|o| *o != crate::env::Pol::Identity) {
                let mut c = vectors.clone();
                c[vi].orders.clear();
                cands.push(c);
            }
            if !vectors[vi].draws.is_empty() {
                let mut c = vectors.clone();
                c[vi].draws.clear();
                cands.push(c);
                let mut c = vectors.clone();
                let half = c[vi].draws.len() / 2;
                c[vi].draws.truncate(half);
                cands.push(c);
                // turn injected extremes back into ordinary words one at a time (first 64)
                for di in 0..vectors[vi].draws.len().min(64) {
                    if vectors[vi].draws[di].kind != crate::env::DrawKind::Uniform {
                        let mut c = vectors.clone();
                        c[vi].draws[di] = crate::env::Draw {
                            bits: 0x8000_0000_0000_0000 ^ mix(di as u64, 7),
                            kind: crate::env::DrawKind::Uniform,
                        };
                        cands.push(c);
                    }
                }
            }
            for oi in 0..vectors[vi].orders.len().min(64) {
                if vectors[vi].orders[oi] != crate::env::Pol::Identity {
                    let mut c = vectors.clone();
                    c[vi].orders[oi] = crate::env::Pol::Identity;
                    cands.push(c);
                }
            }
        }
        for c in cands {
            if evals >= MINIMISE_EVALS {
                break;
            }
            let (viol, reps) = evaluate_explicit(p, &sc, &c);
            evals += 1;
            if let Some(v) = find(&viol, &current) {
                let consumed: Vec<Vector> = reps.iter().map(|r| r.consumed.clone()).collect();
                if consumed != vectors {
                    vectors = consumed;
                    ticks = reps.iter().map(|r| r.ticks).sum();
                    current = v;
                    progress = true;
                    break;
                }
            }
        }
    }
    if ticks == 0 {
        let (_, reps) = evaluate_explicit(p, &sc, &vectors);
        ticks = reps.iter().map(|r| r.ticks).sum();
    }
    (sc, vectors, current, ticks)
}

fn write_replay<P: Property>(
    p: &P,
    opt: &Options,
    index: u64,
    sc: &P::Scenario,
    vectors: &[Vector],
    v: &Violation,
    ticks: u64,
    fps: &[String],
) -> Result<PathBuf, String> {
    let (_, reps) = evaluate_explicit(p, sc, vectors);
    let rv = vectors
        .iter()
        .zip(reps.iter())
        .map(|(vec, rep)| ReplayVector {
            orders: vec.orders.clone(),
            draws: vec.draws.clone(),
            sites: rep.order_sites.iter().map(|s| s.to_string()).collect(),
        })
        .collect();
    let file = ReplayFile {
        engine: "engeom-sim/1".into(),
        property: p.id().into(),
        class: v.class.clone(),
        operation: v.operation.clone(),
        message: v.message.clone(),
        seed: opt.seed,
        run: index,
        minimised: true,
        scenario: serde_json::to_value(sc).unwrap(),
        vectors: rv,
        ticks,
        fingerprints: fps.to_vec(),
    };
    let dir = opt.verif_dir.join("replays");
    std::fs::create_dir_all(&dir).map_err(|e| e.to_string())?;
    let op: String = v
        .operation
        .chars()
        .map(|c| if c.is_ascii_alphanumeric() { c } else { '_' })
        .collect();
    let path = dir.join(format!("{}-{}-{}-{}-{}.json", p.id(), v.class, op, opt.seed, index));
    std::fs::write(&path, serde_json::to_string_pretty(&file).unwrap()).map_err(|e| e.to_string())?;
    Ok(path)
}

pub fn replay<P: Property>(p: &P, opt: &Options, path: &Path) -> i32 {
    let text = match std::fs::read_to_string(path) {
        Ok(t) => t,
        Err(e) => {
            out(&format!("HARNESS-ERROR cannot read replay {}: {}", path.display(), e));
            return 2;
        }
    };
    let file: ReplayFile = match serde_json::from_str(&text) {
        Ok(f) => f,
        Err(e) => {
            out(&format!("HARNESS-ERROR bad replay file: {}", e));
            return 2;
        }
    };
    if file.property != p.id() {
        out(&format!("HARNESS-ERROR replay is for {} not {}", file.property, p.id()));
        return 2;
    }
    let sc: P::Scenario = match serde_json::from_value(file.scenario.clone()) {
        Ok(s) => s,
        Err(e) => {
            out(&format!("HARNESS-ERROR bad scenario in replay: {}", e));
            return 2;
        }
    };
    let vectors: Vec<Vector> = file
        .vectors
        .iter()
        .map(|v| Vector { orders: v.orders.clone(), draws: v.draws.clone() })
        .collect();
    let (viol, reps) = evaluate_explicit(p, &sc, &vectors);
    let ticks: u64 = reps.iter().map(|r| r.ticks).sum();
    let hit = viol
        .iter()
        .find(|v| v.class == file.class && v.operation == file.operation);
    let _ = opt;
    match hit {
        Some(v) => {
            out(&format!(
                "REPLAY property={} class={} operation={} ticks={} reproduced=true",
                p.id(),
                v.class,
                v.operation,
                ticks
            ));
            out(&format!("  message: {}", v.message));
            out(&format!("VIOLATION property={} replay={}", p.id(), path.display()));
            1
        }
        None => {
            out(&format!(
                "REPLAY property={} class={} operation={} reproduced=false (other violations: {})",
                p.id(),
                file.class,
                file.operation,
                viol.iter().map(|v| format!("{}@{}", v.class, v.operation)).collect::<Vec<_>>().join(",")
            ));
            0
        }
    }
}

/// Debugging aid: execute a single run index on the calling thread and describe it.
fn only_run<P: Property>(p: &P, opt: &Options, index: u64) -> i32 {
    let mut rng = Rng::for_run(opt.seed, p.id(), index);
    let sc = p.generate(&mut rng, opt.tier);
    out(&format!("run {} scenario {}", index, serde_json::to_string(&sc).unwrap()));
    let swarm = p.swarm(&mut rng, &sc);
    let nv = p.vectors(&mut rng, opt.tier, &sc).max(1);
    out(&format!("vectors {} swarm {:?}", nv, swarm));
    let plans = (0..nv)
        .map(|_| (Vector::default(), Some((rng.fork(), swarm.clone()))))
        .collect();
    let t0 = Instant::now();
    let ex = execute_vectors(p, &sc, plans);
    let t_exec = t0.elapsed();
    let mut stats = Stats::default();
    let t1 = Instant::now();
    let violations = p.judge(&sc, &ex.runs, &mut stats);
    out(&format!("timing: execute {} ms, judge {} ms", t_exec.as_millis(), t1.elapsed().as_millis()));
    for (i, r) in ex.reports.iter().enumerate() {
        out(&format!("vector {} ticks {} orders {:?} draws {}", i, r.ticks, r.consumed.orders, r.consumed.draws.len()));
    }
    for v in &violations {
        out(&format!("violation {:?}", v));
    }
    out(&format!("stats {:?}", stats.counters));
    if violations.is_empty() { 0 } else { 1 }
}

pub fn check<P: Property>(p: &P, opt: &Options) -> i32 {
    if let Some(path) = &opt.replay {
        return replay(p, opt, path);
    }
    let known = match load_known(&opt.verif_dir) {
        Ok(k) => k,
        Err(e) => {
            out(&format!("HARNESS-ERROR {}", e));
            return 2;
        }
    };
    if let Some(index) = opt.only_run {
        return only_run(p, opt, index);
    }
    let total = opt.runs.unwrap_or_else(|| p.runs(opt.tier));
    let started = Instant::now();
    let counter = AtomicU64::new(0);
    let inflight: Mutex<BTreeMap<usize, (u64, Instant, std::sync::Arc<std::sync::atomic::AtomicU64>, String)>> = Mutex::new(BTreeMap::new());
    let done = std::sync::atomic::AtomicBool::new(false);
    let run_times = AtomicU64::new(0);

    out(&format!(
        "engeom-sim property={} tier={} seed={} runs={} workers={}",
        p.id(),
        opt.tier.name(),
        opt.seed,
        total,
        opt.workers
    ));

    let mut acc: Acc<P::Scenario> = Acc {
        evaluations: 0,
        vector_runs: 0,
        distinct: BTreeSet::new(),
        scenarios: BTreeSet::new(),
        ticks: 0,
        fired: Fired::default(),
        stats: Stats::default(),
        raw_hist: BTreeMap::new(),
        log_sum: 0,
        violating: BTreeMap::new(),
        violating_total: 0,
        viol_kinds: BTreeMap::new(),
        samples: BTreeMap::new(),
    };

    std::thread::scope(|scope| {
        // Watchdog: a net for a loop that never reaches a seam. Normal runs take micro- to
        // milliseconds. It measures the CPU time of the worker thread (/proc/self/task/<tid>/stat),
        // not wall-clock time, so that a loaded machine cannot make it fire: five minutes of CPU
        // inside one library operation is a violation (`hang-no-seam`); half an hour of CPU in the
        // generator or oracle code of one run is a harness error (exit 2) and says nothing about
        // the property. Where /proc cannot be read it falls back to wall-clock with twice the limits.
        scope.spawn(|| {
            struct Seen {
                index: u64,
                op: u64,
                last_cpu: f64,
                op_cpu: f64,
                harness_cpu: f64,
            }
            let mut seen: BTreeMap<usize, Seen> = BTreeMap::new();
            let started = Instant::now();
            // (for testing the watchdog itself: VERIF_WATCHDOG_DIV=60 turns the limits into 5 s and 30 s)
            let div: f64 = std::env::var("VERIF_WATCHDOG_DIV").ok().and_then(|v| v.parse().ok()).unwrap_or(1.0);
            while !done.load(Ordering::Relaxed) {
                std::thread::sleep(std::time::Duration::from_millis(500));
                let snapshot: Vec<(usize, u64, String, u64)> = inflight.lock().unwrap().iter().map(|(w, (i, _, op, tid))| (*w, *i, tid.clone(), op.load(Ordering::Relaxed))).collect();
                for (w, index, tid, op) in snapshot {
                    let cpu = thread_cpu_seconds(&tid).unwrap_or_else(|| started.elapsed().as_secs_f64() / 2.0);
                    let e = seen.entry(w).or_insert(Seen { index, op, last_cpu: cpu, op_cpu: 0.0, harness_cpu: 0.0 });
                    if e.index != index {
                        *e = Seen { index, op, last_cpu: cpu, op_cpu: 0.0, harness_cpu: 0.0 };
                        continue;
                    }
                    let delta = (cpu - e.last_cpu).max(0.0);
                    e.last_cpu = cpu;
                    if e.op != op {
                        e.op = op;
                        e.op_cpu = 0.0;
                    }
                    if op % 2 == 1 {
                        e.op_cpu += delta;
                    } else {
                        e.harness_cpu += delta;
                    }
                    if e.harness_cpu >= 1800.0 / div {
                        out(&format!("HARNESS-ERROR run {} spent more than 1800 s of CPU outside any library operation (generator or oracle code); re-run with --only-run {}", index, index));
                        std::process::exit(2);
                    }
                    if e.op_cpu >= 300.0 / div {
                        let dir = opt.verif_dir.join("replays");
                        let _ = std::fs::create_dir_all(&dir);
                        let path = dir.join(format!("{}-hang-no-seam-{}-{}.json", p.id(), opt.seed, index));
                        let _ = std::fs::write(
                            &path,
                            json!({"engine":"engeom-sim/1","property":p.id(),"class":"hang-no-seam",
                                   "seed":opt.seed,"run":index,"tier":opt.tier.name(),
                                   "note":"one library operation used more than 300 s of CPU without reaching a seam or exhausting its tick budget; re-run with --only-run"}).to_string(),
                        );
                        out(&format!("VIOLATION property={} replay={}", p.id(), path.display()));
                        std::process::exit(1);
                    }
                }
            }
        });
        // Runs are handed out in fixed batches with a barrier after each; the search stops after
        // the first batch that contains a violating run. Batch boundaries are fixed, so which runs
        // were executed (and the lowest violating index) does not depend on thread timing.
        let slow_debug = std::env::var("VERIF_SLOW").is_ok();
        let batch: u64 = 2_000;
        let mut batch_start = 0u64;
        while batch_start < total {
        let batch_end = (batch_start + batch).min(total);
        counter.store(batch_start, Ordering::Relaxed);
        let mut handles = Vec::new();
        for w in 0..opt.workers {
            let counter = &counter;
            let inflight = &inflight;
            let run_times = &run_times;
            handles.push(scope.spawn(move || {
                let mut local: Acc<P::Scenario> = Acc {
                    evaluations: 0,
                    vector_runs: 0,
                    distinct: BTreeSet::new(),
                    scenarios: BTreeSet::new(),
                    ticks: 0,
                    fired: Fired::default(),
                    stats: Stats::default(),
                    raw_hist: BTreeMap::new(),
                    log_sum: 0,
                    violating: BTreeMap::new(),
                    violating_total: 0,
                    viol_kinds: BTreeMap::new(),
                    samples: BTreeMap::new(),
                };
                let in_op_flag = std::sync::Arc::new(std::sync::atomic::AtomicU64::new(0));
                let tid = std::fs::read_link("/proc/thread-self").ok().and_then(|p| p.file_name().map(|f| f.to_string_lossy().into_owned())).unwrap_or_default();
                crate::env::IN_OP_SHARED.with(|f| *f.borrow_mut() = Some(in_op_flag.clone()));
                loop {
                    let i = counter.fetch_add(1, Ordering::Relaxed);
                    if i >= batch_end {
                        break;
                    }
                    let t0 = Instant::now();
                    inflight.lock().unwrap().insert(w, (i, t0, in_op_flag.clone(), tid.clone()));
                    one_run(p, opt, i, &mut local);
                    if slow_debug && t0.elapsed().as_millis() > 500 {
                        eprintln!("slow run {} took {} ms", i, t0.elapsed().as_millis());
                    }
                    run_times.fetch_add(1, Ordering::Relaxed);
                }
                inflight.lock().unwrap().remove(&w);
                local
            }));
        }
        for h in handles {
            match h.join() {
                Ok(local) => merge(&mut acc, local),
                Err(_) => {
                    out("HARNESS-ERROR a worker thread panicked in harness code (see stderr)");
                    std::process::exit(2);
                }
            }
        }
        // stop unless every violation of this batch is (on the unminimised scenario) a listed
        // open finding; the binding match is made later on the minimised scenario
        let unlisted = acc.violating.range(batch_start..batch_end).any(|(_, found)| {
            found.violations.iter().any(|v| {
                let fps = p.fingerprints(&found.scenario, v);
                !known.findings.iter().any(|k| {
                    k.status == "open" && k.property == p.id() && k.class == v.class && k.operation == v.operation && fps.contains(&k.fingerprint)
                })
            })
        });
        batch_start = batch_end;
        if unlisted && !opt.exhaust {
            break;
        }
        }
        done.store(true, Ordering::Relaxed);
    });

    let search_wall = started.elapsed().as_secs_f64();

    // Triage violating runs in run-index order: minimise, match against listed findings,
    // report the first unlisted one.
    let mut known_matched: BTreeMap<String, u64> = BTreeMap::new();
    let mut reported: Option<(PathBuf, Violation, u64)> = None;
    let mut minimised_count = 0;
    for (index, found) in acc.violating.iter() {
        if reported.is_some() {
            break;
        }
        // every violation kind of this run is triaged separately
        let mut kinds: Vec<Violation> = Vec::new();
        for v in &found.violations {
            if !kinds.iter().any(|k| k.same_kind(v)) {
                kinds.push(v.clone());
            }
        }
        for target in kinds {
            // Cheap pre-match on the unminimised scenario once enough cases were minimised.
            if minimised_count >= 12 {
                let fps = p.fingerprints(&found.scenario, &target);
                if let Some(k) = known.findings.iter().find(|k| {
                    k.status == "open"
                        && k.property == p.id()
                        && k.class == target.class
                        && k.operation == target.operation
                        && fps.contains(&k.fingerprint)
                }) {
                    *known_matched.entry(k.id.clone()).or_insert(0) += 1;
                    continue;
                }
            }
            let (sc, vectors, v, ticks) =
                minimise(p, found.scenario.clone(), found.vectors.clone(), &target);
            minimised_count += 1;
            let fps = p.fingerprints(&sc, &v);
            if let Some(k) = known.findings.iter().find(|k| {
                k.status == "open"
                    && k.property == p.id()
                    && k.class == v.class
                    && k.operation == v.operation
                    && fps.contains(&k.fingerprint)
            }) {
                *known_matched.entry(k.id.clone()).or_insert(0) += 1;
                continue;
            }
            match write_replay(p, opt, *index, &sc, &vectors, &v, ticks, &fps) {
                Ok(path) => {
                    reported = Some((path, v, *index));
                }
                Err(e) => {
                    out(&format!("HARNESS-ERROR cannot write replay: {}", e));
                    return 2;
                }
            }
            break;
        }
    }

    // every listed open finding is also executed on its own recorded input, so that its line is
    // printed on every run of the check and not only when the search happens to meet it
    for k in &known.findings {
        if k.property != p.id() || k.status != "open" {
            continue;
        }
        let Some(rel) = &k.replay else { continue };
        let listed = std::fs::read_to_string(opt.verif_dir.join(rel)).ok().and_then(|t| serde_json::from_str::<ReplayFile>(&t).ok()).and_then(|file| {
            let sc: P::Scenario = serde_json::from_value(file.scenario.clone()).ok()?;
            let vectors: Vec<Vector> = file.vectors.iter().map(|v| Vector { orders: v.orders.clone(), draws: v.draws.clone() }).collect();
            let (viol, _) = evaluate_explicit(p, &sc, &vectors);
            Some(viol.iter().any(|v| v.class == k.class && v.operation == k.operation && p.fingerprints(&sc, v).contains(&k.fingerprint)))
        });
        match listed {
            Some(true) => *known_matched.entry(k.id.clone()).or_insert(0) += 1,
            Some(false) => out(&format!("NOTE: the listed finding {} does not show on its recorded input {} on this tree", k.id, rel)),
            None => {
                out(&format!("HARNESS-ERROR cannot read or run the recorded input {} of the listed finding {}", rel, k.id));
                return 2;
            }
        }
    }
    for k in &known.findings {
        if k.property == p.id() && k.status == "open" && known_matched.contains_key(&k.id) {
            out(&format!("KNOWN-FINDING: property={} {} [{}; matched in {} runs]", p.id(), k.what_fails, k.id, known_matched[&k.id]));
        }
    }

    let wall = started.elapsed().as_secs_f64();
    let violations = if reported.is_some() { 1 } else { 0 };

    // evidence
    let mut fired = serde_json::Map::new();
    for (i, k) in ORDER_KINDS.iter().enumerate() {
        fired.insert(k.to_string(), json!(acc.fired.orders[i]));
    }
    for (i, k) in DRAW_KINDS.iter().enumerate() {
        fired.insert(k.to_string(), json!(acc.fired.draws[i]));
    }
    fired.insert("budget".into(), json!(acc.fired.budget_exhausted));
    fired.insert("threads:Seq".into(), json!("constant (faer pool stubbed)"));
    let mut probes = serde_json::Map::new();
    let mut companion = serde_json::Map::new();
    let mut undetermined = serde_json::Map::new();
    let mut other = serde_json::Map::new();
    for (k, v) in &acc.stats.counters {
        if let Some(r) = k.strip_prefix("probe:") {
            probes.insert(r.to_string(), json!(v));
        } else if let Some(r) = k.strip_prefix("companion:") {
            companion.insert(r.to_string(), json!(v));
        } else if let Some(r) = k.strip_prefix("undetermined:") {
            undetermined.insert(r.to_string(), json!(v));
        } else {
            other.insert(k.clone(), json!(v));
        }
    }
    let raw_hist: serde_json::Map<String, Value> =
        acc.raw_hist.iter().map(|(k, v)| (k.to_string(), json!(v))).collect();
    let evidence = json!({
        "property_id": p.id(),
        "tier": opt.tier.name(),
        "seed": opt.seed,
        "level": "exploration",
        "coverage": {
            "evaluations": acc.evaluations,
            "distinct_nontrivial": acc.distinct.len(),
            "rule": p.rule(),
            "samples": acc.samples.values().collect::<Vec<_>>(),
            "simulated_executions": acc.vector_runs,
            "distinct_scenarios": acc.scenarios.len(),
            "runs_per_hour": if search_wall > 0.0 { (acc.evaluations as f64 / search_wall * 3600.0) as u64 } else { 0 },
            "simulated_executions_per_hour": if search_wall > 0.0 { (acc.vector_runs as f64 / search_wall * 3600.0) as u64 } else { 0 },
            "seeds": format!("master seed {}; one derived PRNG per run index 0..{}", opt.seed, total),
            "sim_ticks_total": acc.ticks,
            "fired": fired,
            "probes": probes,
            "raw_outputs_per_scenario": raw_hist,
            "budget_exhausted": acc.fired.budget_exhausted,
            "panics_caught": acc.fired.panics,
            "undetermined_skipped": undetermined,
            "companion": companion,
            "counters": other,
            "measured_maxima": acc.stats.maxima,
            "components": p.components(),
            "runs_with_violation": acc.violating_total,
            "violation_kinds": acc.viol_kinds,
            "known_findings_matched": known_matched,
            "log_digest": format!("{:016x}", acc.log_sum),
            "workers": opt.workers,
            "exhaustive": false,
        },
        "assumptions": p.assumptions(),
        "wall_s": wall,
        "violations": violations,
    });
    if opt.write_evidence {
        let dir = opt.verif_dir.join("evidence");
        if let Err(e) = std::fs::create_dir_all(&dir)
            .and_then(|_| std::fs::write(dir.join(format!("{}.json", p.id())), serde_json::to_string_pretty(&evidence).unwrap()))
        {
            out(&format!("HARNESS-ERROR cannot write evidence: {}", e));
            return 2;
        }
    }

    out(&format!(
        "summary property={} runs={} executions={} distinct={} ticks={} budget_exhausted={} panics={} violating_runs={} log_digest={:016x} wall_s={:.1}",
        p.id(),
        acc.evaluations,
        acc.vector_runs,
        acc.distinct.len(),
        acc.ticks,
        acc.fired.budget_exhausted,
        acc.fired.panics,
        acc.violating_total,
        acc.log_sum,
        wall
    ));

    if std::env::var("VERIF_DEBUG").is_ok() {
        for (index, found) in acc.violating.iter() {
            for v in &found.violations {
                out(&format!("  debug run={} {}@{} vectors={:?} :: {}", index, v.class, v.operation, v.vectors, v.message));
            }
        }
    }
    if std::env::var("VERIF_DEBUG").is_ok() {
        for (k, v) in &acc.stats.maxima {
            out(&format!("  max {} = {:.4e}", k, v));
        }
    }
    for (k, n) in &acc.viol_kinds {
        out(&format!("  violating runs by kind: {} x{}", k, n));
    }
    if let Some((path, v, index)) = reported {
        out(&format!(
            "violation class={} operation={} run={} message={}",
            v.class, v.operation, index, v.message
        ));
        out(&format!("VIOLATION property={} replay={}", p.id(), path.display()));
        return 1;
    }
    0
}

/// CPU seconds (user + system) used so far by a thread of this process, from /proc.
fn thread_cpu_seconds(tid: &str) -> Option<f64> {
    if tid.is_empty() {
        return None;
    }
    let stat = std::fs::read_to_string(format!("/proc/self/task/{}/stat", tid)).ok()?;
    let rest = &stat[stat.rfind(')')? + 1..];
    let fields: Vec<&str> = rest.split_whitespace().collect();
    // after "pid (comm)": state is field 0, utime field 11, stime field 12; 100 ticks per second
    let utime: f64 = fields.get(11)?.parse().ok()?;
    let stime: f64 = fields.get(12)?.parse().ok()?;
    Some((utime + stime) / 100.0)
}
