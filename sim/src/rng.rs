//! The only entropy source of the simulator: splitmix64 seeding a xoshiro256**.
//! Everything a run decides is a pure function of (master seed, property, run index).

#[derive(Clone, Debug)]
pub struct Rng {
    s: [u64; 4],
}

pub fn splitmix(state: &mut u64) -> u64 {
    *state = state.wrapping_add(0x9E37_79B9_7F4A_7C15);
    let mut z = *state;
    z = (z ^ (z >> 30)).wrapping_mul(0xBF58_476D_1CE4_E5B9);
    z = (z ^ (z >> 27)).wrapping_mul(0x94D0_49BB_1331_11EB);
    z ^ (z >> 31)
}

pub fn mix(a: u64, b: u64) -> u64 {
    let mut s = a ^ b.rotate_left(32) ^ 0xD1B5_4A32_D192_ED03;
    let x = splitmix(&mut s);
    x ^ splitmix(&mut s).rotate_left(17) ^ b
}

impl Rng {
    pub fn new(seed: u64) -> Self {
        let mut sm = seed;
        let s = [
            splitmix(&mut sm),
            splitmix(&mut sm),
            splitmix(&mut sm),
            splitmix(&mut sm),
        ];
        Rng { s }
    }

    /// Per-run generator: a function of master seed, property tag and run index only.
    pub fn for_run(seed: u64, tag: &str, index: u64) -> Self {
        let mut h = seed;
        for b in tag.bytes() {
            h = mix(h, b as u64);
        }
        Rng::new(mix(h, index))
    }

    pub fn next_u64(&mut self) -> u64 {
        let result = self.s[1].wrapping_mul(5).rotate_left(7).wrapping_mul(9);
        let t = self.s[1] << 17;
        self.s[2] ^= self.s[0];
        self.s[3] ^= self.s[1];
        self.s[1] ^= self.s[2];
        self.s[0] ^= self.s[3];
        self.s[2] ^= t;
        self.s[3] = self.s[3].rotate_left(45);
        result
    }

    /// Independent child stream.
    pub fn fork(&mut self) -> Rng {
        Rng::new(self.next_u64())
    }

    /// Uniform in 0..n (n > 0).
    pub fn below(&mut self, n: usize) -> usize {
        debug_assert!(n > 0);
        ((self.next_u64() as u128 * n as u128) >> 64) as usize
    }

    /// Uniform integer in lo..=hi.
    pub fn range(&mut self, lo: i64, hi: i64) -> i64 {
        lo + self.below((hi - lo + 1) as usize) as i64
    }

    /// Uniform in [0, 1).
    pub fn f64(&mut self) -> f64 {
        (self.next_u64() >> 11) as f64 * (1.0 / (1u64 << 53) as f64)
    }

    pub fn uniform(&mut self, lo: f64, hi: f64) -> f64 {
        lo + (hi - lo) * self.f64()
    }

    /// Log-uniform in [lo, hi].
    pub fn log_uniform(&mut self, lo: f64, hi: f64) -> f64 {
        (self.uniform(lo.ln(), hi.ln())).exp()
    }

    pub fn chance(&mut self, p: f64) -> bool {
        self.f64() < p
    }

    pub fn pick<'a, T>(&mut self, items: &'a [T]) -> &'a T {
        &items[self.below(items.len())]
    }

    /// Pick an index according to integer weights.
    pub fn weighted(&mut self, weights: &[u32]) -> usize {
        let total: u32 = weights.iter().sum();
        let mut r = self.below(total as usize) as u32;
        for (i, &w) in weights.iter().enumerate() {
            if r < w {
                return i;
            }
            r -= w;
        }
        weights.len() - 1
    }

    pub fn shuffle<T>(&mut self, items: &mut [T]) {
        for i in (1..items.len()).rev() {
            let j = self.below(i + 1);
            items.swap(i, j);
        }
    }

    pub fn normal(&mut self) -> f64 {
        // Box-Muller; only used by generators, never in an oracle
        let u1 = 1.0 - self.f64();
        let u2 = self.f64();
        (-2.0 * u1.ln()).sqrt() * (2.0 * std::f64::consts::PI * u2).cos()
    }
}

/// 128-bit digest built from two independent 64-bit mixers; used for counting distinct cases and
/// for the determinism self-test. Not cryptographic.
#[derive(Clone, Copy, Debug, PartialEq, Eq, PartialOrd, Ord)]
pub struct Digest(pub u64, pub u64);

impl Default for Digest {
    fn default() -> Self {
        Digest(0xcbf2_9ce4_8422_2325, 0x6c62_272e_07bb_0142)
    }
}

impl Digest {
    pub fn new() -> Self {
        Self::default()
    }
    pub fn u64(&mut self, x: u64) {
        self.0 = (self.0 ^ x).wrapping_mul(0x0000_0100_0000_01B3).rotate_left(23);
        self.1 = mix(self.1, x);
    }
    pub fn f64(&mut self, x: f64) {
        self.u64(x.to_bits());
    }
    pub fn str(&mut self, s: &str) {
        self.u64(s.len() as u64);
        for b in s.bytes() {
            self.u64(b as u64);
        }
    }
    pub fn absorb(&mut self, d: Digest) {
        self.u64(d.0);
        self.u64(d.1);
    }
    pub fn hex(&self) -> String {
        format!("{:016x}{:016x}", self.0, self.1)
    }
}
