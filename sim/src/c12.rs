//! C12 — mesh connectivity results are exact partitions and always terminate.

use crate::core::*;
use crate::env::{OpResult, Sim, Swarm};
use crate::meshgen::*;
use crate::rng::{Digest, Rng};
use engeom::verif::collections::HashSet as SimHashSet;
use engeom::{Mesh, Point3};
use serde::{Deserialize, Serialize};
use serde_json::json;
use std::collections::{BTreeMap, BTreeSet};

pub struct C12;

#[derive(Serialize, Deserialize, Clone, Debug)]
pub enum Sc {
    Mesh { label: String, mesh: M },
    /// A mesh that is queried, then changed in place (append / transform / clone) and queried
    /// again: every query must describe the mesh as it is at that moment.
    History { label: String, mesh: M, steps: Vec<Step> },
    /// A large mesh given by its construction rule (kept out of the scenario file): a flat fan
    /// of `a` faces around one centre vertex (`b` ignored), or a grid of `a` x `b` cells.
    Big { kind: BigKind, a: usize, b: usize },
    Box { w: f64, h: f64, d: f64 },
    Cylinder { r: f64, h: f64, steps: usize },
    /// A small mesh living in a huge vertex buffer: explicit vertex `i` sits at buffer index
    /// `ids[i]`, every other slot of the `n_vertices` long buffer is an unreferenced vertex.
    Sparse { label: String, mesh: M, ids: Vec<u32>, n_vertices: usize },
    Voxels { label: String, cells: Vec<[i32; 3]> },
    Chains { label: String, branching: bool, pairs: Vec<[u32; 2]> },
}

#[derive(Serialize, Deserialize, Clone, Copy, Debug, PartialEq)]
pub enum BigKind {
    Fan,
    Grid,
}

pub fn big_mesh(kind: BigKind, a: usize, b: usize) -> M {
    match kind {
        BigKind::Fan => {
            let n = a;
            let mut v = Vec::with_capacity(n + 1);
            v.push([0.0, 0.0, 0.0]);
            for i in 0..n {
                let t = i as f64 / n as f64 * std::f64::consts::TAU;
                v.push([t.cos() * (1.0 + (i % 7) as f64 * 0.01), t.sin() * (1.0 + (i % 5) as f64 * 0.01), 0.0]);
            }
            let f = (0..n).map(|i| [0u32, 1 + i as u32, 1 + ((i + 1) % n) as u32]).collect();
            M { v, f }
        }
        BigKind::Grid => {
            let (nx, ny) = (a, b);
            let mut v = Vec::with_capacity((nx + 1) * (ny + 1));
            for j in 0..=ny {
                for i in 0..=nx {
                    v.push([i as f64, j as f64, ((i * 7 + j * 3) % 5) as f64 * 0.01]);
                }
            }
            let id = |i: usize, j: usize| (j * (nx + 1) + i) as u32;
            let mut f = Vec::with_capacity(nx * ny * 2);
            for j in 0..ny {
                for i in 0..nx {
                    let (p, q, r, s) = (id(i, j), id(i + 1, j), id(i + 1, j + 1), id(i, j + 1));
                    f.push([p, q, r]);
                    f.push([p, r, s]);
                }
            }
            M { v, f }
        }
    }
}

#[derive(Serialize, Deserialize, Clone, Debug)]
pub enum Step {
    Append(M),
    /// append a mesh that was built with `Mesh::new_with_options(.., merge_duplicates,
    /// delete_degenerate, None)`; the mesh itself is clean (the options change nothing in it), and
    /// the options of the appended mesh must not reach the faces of the receiver
    AppendBuilt(M, bool, bool),
    Transform(Pose),
    /// continue with a clone of the mesh (the original is dropped)
    CloneAndContinue,
    /// clone the mesh, append the first mesh to the original and the second to the clone (both
    /// stay alive), query the original and then the clone; the history continues with the original
    ForkAppend(M, M),
}

pub struct EdgesObs {
    pub edges: Vec<[u32; 2]>,
    pub lengths: Vec<f64>,
    pub face_edges: Vec<[u32; 3]>,
    pub loops: Vec<Vec<u32>>,
}

pub struct MeshObs {
    /// the mesh as the library holds it (identical to the scenario mesh for `Sc::Mesh`)
    pub mesh: M,
    pub primitive: bool,
    pub normals: OpResult<Result<Vec<[f64; 3]>, String>>,
    pub edges: OpResult<Result<EdgesObs, String>>,
    pub patches: OpResult<Vec<Vec<usize>>>,
    pub bounds: OpResult<Result<Vec<Vec<[f64; 3]>>, String>>,
}

pub enum Obs {
    Mesh(Box<MeshObs>),
    /// one observation per stage of a history (stage 0 = before the first step)
    Stages(Vec<MeshObs>),
    Construct(String),
    Voxels(OpResult<Vec<Vec<[i32; 3]>>>),
    Chains(OpResult<Vec<Vec<u32>>>),
}

pub fn budget(n: usize) -> u64 {
    10_000 + 200 * n as u64 * n.min(64) as u64
}

pub fn to_mesh(m: &M) -> Mesh {
    let v: Vec<Point3> = m.v.iter().map(|p| Point3::new(p[0], p[1], p[2])).collect();
    Mesh::new(v, m.f.clone(), false)
}

/// For the connectivity scenarios: the `is_solid` flag (how distance queries treat interior
/// points) has no bearing on connectivity, open or closed; it is set on every other mesh, decided
/// by the mesh's own counts so that it needs no entry in the scenario.
fn to_mesh_any_flag(m: &M) -> Mesh {
    let v: Vec<Point3> = m.v.iter().map(|p| Point3::new(p[0], p[1], p[2])).collect();
    Mesh::new(v, m.f.clone(), (m.v.len() + m.f.len()) % 2 == 1)
}

pub fn from_mesh(mesh: &Mesh) -> M {
    M {
        v: mesh.vertices().iter().map(|p| [p.x, p.y, p.z]).collect(),
        f: mesh.faces().to_vec(),
    }
}

fn observe_mesh(sim: &Sim, mesh: &Mesh, primitive: bool) -> MeshObs {
    let m = from_mesh(mesh);
    // the budget is a function of what the faces refer to: vertices no face uses give no extra time
    let used: BTreeSet<u32> = m.f.iter().flat_map(|f| f.iter().copied()).collect();
    let n = used.len() + m.f.len();
    let b = budget(n);
    let normals = if primitive {
        sim.op("Mesh::get_face_normals", b, || {
            mesh.get_face_normals()
                .map(|ns| ns.iter().map(|n| [n.x, n.y, n.z]).collect())
                .map_err(|e| e.to_string())
        })
    } else {
        OpResult::Done(Ok(Vec::new()))
    };
    let t0 = std::time::Instant::now();
    let edges = sim.op("Mesh::calc_edges", b, || {
        mesh.calc_edges()
            .map(|e| EdgesObs {
                edges: e.edges.clone(),
                lengths: e.edge_lengths.clone(),
                face_edges: e.face_edges.clone(),
                loops: e.boundary_loops.clone(),
            })
            .map_err(|e| e.to_string())
    });
    let t_edges = t0.elapsed().as_millis();
    let t0 = std::time::Instant::now();
    let patches = sim.op("Mesh::get_patches", b, || mesh.get_patches());
    let t_patches = t0.elapsed().as_millis();
    let t0 = std::time::Instant::now();
    let bounds = sim.op("Mesh::get_patch_boundary_points", b, || {
        mesh.get_patch_boundary_points()
            .map(|ls| ls.iter().map(|l| l.iter().map(|p| [p.x, p.y, p.z]).collect()).collect())
            .map_err(|e| e.to_string())
    });
    let t_bounds = t0.elapsed().as_millis();
    if std::env::var("VERIF_SLOW").is_ok() {
        eprintln!("observe_mesh timings ms: edges {:?} patches {:?} bounds {:?}", t_edges, t_patches, t_bounds);
    }
    MeshObs { mesh: m, primitive, normals, edges, patches, bounds }
}

// ---------------------------------------------------------------------------------------------
// generators

fn gen_small_arbitrary(rng: &mut Rng) -> Sc {
    let nv = 3 + rng.below(6);
    let nf = 1 + rng.below(10);
    let f = arbitrary_faces(rng, nv, nf);
    let v = scattered_vertices(rng, nv, 4.0);
    Sc::Mesh { label: "small-arbitrary".into(), mesh: M { v, f } }
}

fn scramble(rng: &mut Rng, m: &mut M, flip_prob: f64) {
    flip_faces(rng, m, flip_prob);
    if rng.chance(0.7) {
        renumber_vertices(rng, m);
    }
    if rng.chance(0.7) {
        shuffle_faces(rng, m);
    }
    if rng.chance(0.7) {
        rotate_triples(rng, m);
    }
}

fn gen_component(rng: &mut Rng, max_cells: usize) -> M {
    match rng.below(7) {
        0 | 1 => {
            // grid with random cells removed: holes, pinches, several components
            let side = (max_cells as f64).sqrt().max(1.0) as usize;
            let nx = 1 + rng.below(side.max(1));
            let ny = 1 + rng.below(side.max(1));
            let density = *rng.pick(&[0.5, 0.7, 0.85, 1.0]);
            let cells = random_cells(rng, nx, ny, density);
            grid(rng, nx, ny, 1.0, 0.3, &|i, j| cells.contains(&(i, j))).compact()
        }
        2 => {
            let side = (max_cells as f64).sqrt().max(2.0) as usize;
            let nx = 2 + rng.below(side);
            let ny = 2 + rng.below(side);
            let target = 1 + rng.below(nx * ny);
            let cells = disk_cells(rng, nx, ny, target);
            grid(rng, nx, ny, 1.0, 0.3, &|i, j| cells.contains(&(i, j))).compact()
        }
        3 => {
            let around = 3 + rng.below(((max_cells / 2).max(4)).min(24));
            let along = 1 + rng.below((max_cells / around).max(1).min(12));
            tube(around, along, 1.0, along as f64 * 0.5)
        }
        4 => cuboid(rng.uniform(0.5, 2.0), rng.uniform(0.5, 2.0), rng.uniform(0.5, 2.0)),
        5 => {
            let mut m = if rng.chance(0.5) { tetrahedron() } else { octahedron() };
            let levels = rng.below(3).min(if max_cells < 64 { 1 } else { 2 });
            for _ in 0..levels {
                m = subdivide(&m, true);
            }
            m
        }
        _ => {
            let nv = 4 + rng.below(8);
            let nf = 2 + rng.below(12);
            let f = arbitrary_faces(rng, nv, nf);
            let v = scattered_vertices(rng, nv, 3.0);
            M { v, f }.compact()
        }
    }
}

fn first_boundary_or_any_vertex(m: &M, rng: &mut Rng) -> u32 {
    let bd: Vec<u32> = m.boundary_degree().keys().copied().collect();
    if !bd.is_empty() && rng.chance(0.8) {
        *rng.pick(&bd)
    } else {
        let used: Vec<u32> = m.f.iter().flat_map(|f| f.iter().copied()).collect();
        *rng.pick(&used)
    }
}

fn gen_structured(rng: &mut Rng, tier: Tier) -> Sc {
    let max_cells = match tier {
        Tier::Quick => *rng.pick(&[4usize, 16, 64, 200]),
        Tier::Thorough => *rng.pick(&[4usize, 16, 64, 256, 1000]),
    };
    let ncomp = 1 + rng.below(3);
    let mut m = gen_component(rng, max_cells);
    let mut label = String::from("structured");
    for _ in 1..ncomp {
        let mut c = gen_component(rng, (max_cells / 2).max(2));
        // keep every vertex position distinct: move the component away
        let off = m.size() * 1.5 + 1.0;
        translate(&mut c, [off, rng.uniform(-1.0, 1.0), rng.uniform(-1.0, 1.0)]);
        if rng.chance(0.5) {
            let va = first_boundary_or_any_vertex(&m, rng);
            let vb = first_boundary_or_any_vertex(&c, rng);
            let u = union(&m, &c, Some((va, vb)));
            if u.in_domain() {
                m = u;
                label.push_str("+shared-vertex");
                continue;
            }
        }
        m = union(&m, &c, None);
        label.push_str("+disjoint");
    }
    let flip = *rng.pick(&[0.0, 0.0, 0.05, 0.5]);
    if flip > 0.0 {
        label.push_str("+flips");
    }
    scramble(rng, &mut m, flip);
    if !m.in_domain() || !m.has_distinct_positions() {
        // cannot happen for these constructions; fall back rather than leave the domain
        return gen_small_arbitrary(rng);
    }
    Sc::Mesh { label, mesh: m }
}

fn expand_sparse(mesh: &M, ids: &[u32], n_vertices: usize) -> M {
    let mut v: Vec<[f64; 3]> = (0..n_vertices).map(|k| [1.0e4 + k as f64, 7.0, -3.0]).collect();
    for (i, &id) in ids.iter().enumerate() {
        v[id as usize] = mesh.v[i];
    }
    let f = mesh.f.iter().map(|f| [ids[f[0] as usize], ids[f[1] as usize], ids[f[2] as usize]]).collect();
    M { v, f }
}

fn gen_sparse(rng: &mut Rng) -> Sc {
    let base = match gen_small_arbitrary(rng) {
        Sc::Mesh { mesh, .. } => mesh.compact(),
        _ => unreachable!(),
    };
    let n_vertices = *rng.pick(&[65_535usize, 65_536, 65_537, 65_538, 66_000, 70_000, 100_000, 131_073]);
    // ids: distinct, a mix of the lowest, the highest and arbitrary slots
    let mut set = BTreeSet::new();
    while set.len() < base.v.len() {
        let id = match rng.below(3) {
            0 => rng.below(8),
            1 => n_vertices - 1 - rng.below(8),
            _ => rng.below(n_vertices),
        };
        set.insert(id as u32);
    }
    let mut ids: Vec<u32> = set.into_iter().collect();
    rng.shuffle(&mut ids);
    Sc::Sparse { label: "small-mesh-in-huge-vertex-buffer".into(), mesh: base, ids, n_vertices }
}

fn pose_to_iso(p: &Pose) -> engeom::Iso3 {
    use parry3d_f64::na::{Matrix3, Rotation3, Translation3, UnitQuaternion};
    let m = Matrix3::new(p.r[0][0], p.r[0][1], p.r[0][2], p.r[1][0], p.r[1][1], p.r[1][2], p.r[2][0], p.r[2][1], p.r[2][2]);
    let q = UnitQuaternion::from_rotation_matrix(&Rotation3::from_matrix_unchecked(m));
    engeom::Iso3::from_parts(Translation3::new(p.t[0], p.t[1], p.t[2]), q)
}

/// The mesh a history should hold after `k` steps (reference model).
fn history_stage(mesh: &M, steps: &[Step], k: usize) -> M {
    let mut m = mesh.clone();
    for s in &steps[..k] {
        match s {
            Step::Append(o) | Step::AppendBuilt(o, _, _) => m = union(&m, o, None),
            Step::Transform(p) => m = p.apply_mesh(&m),
            Step::CloneAndContinue => {}
            Step::ForkAppend(a, _) => m = union(&m, a, None),
        }
    }
    m
}

fn gen_history(rng: &mut Rng) -> Sc {
    let mut m = gen_component(rng, 16);
    scramble(rng, &mut m, 0.0);
    let mut steps = Vec::new();
    let n = 1 + rng.below(3);
    let mut reach = m.size() * 2.0 + 2.0;
    for _ in 0..n {
        match rng.below(4) {
            0 | 1 => {
                let mut c = gen_component(rng, 8);
                // far away from everything so far, so that all positions stay distinct
                translate(&mut c, [reach * 4.0, rng.uniform(-1.0, 1.0), rng.uniform(-1.0, 1.0)]);
                reach = reach * 4.0 + c.size() + 2.0;
                if rng.chance(0.3) {
                    // a clean quad built with clean-up options of its own
                    let o = c.v[0];
                    let s = rng.uniform(0.5, 2.0);
                    let quad = M { v: vec![o, [o[0] + s, o[1], o[2]], [o[0] + s, o[1] + s, o[2]], [o[0], o[1] + s, o[2]]], f: vec![[0, 1, 2], [0, 2, 3]] };
                    let (merge, delete) = *rng.pick(&[(true, false), (false, true), (true, true)]);
                    steps.push(Step::AppendBuilt(quad, merge, delete));
                } else {
                    steps.push(Step::Append(c));
                }
            }
            2 => steps.push(Step::Transform(Pose::random(rng, 3.0))),
            _ if rng.chance(0.5) => {
                // two different components with the same number of faces
                let mut a = gen_component(rng, 8);
                let want = a.f.len();
                let mut b = None;
                for _ in 0..40 {
                    let cand = gen_component(rng, 8);
                    if cand.f.len() == want && cand.f != a.f {
                        b = Some(cand);
                        break;
                    }
                }
                let mut b = match b {
                    Some(b) => b,
                    None => {
                        // same faces, one of them re-attached elsewhere is not always possible:
                        // fall back to a disjoint copy with one face flipped (connectivity as sets
                        // is the same, so use a copy split into two components instead)
                        let mut c2 = a.clone();
                        if c2.f.len() >= 2 {
                            // detach the last face: give it three vertices of its own
                            let f = c2.f.pop().unwrap();
                            let base = c2.v.len() as u32;
                            for k in 0..3 {
                                let p = c2.v[f[k] as usize];
                                c2.v.push([p[0] + 0.125, p[1] + 0.25, p[2] + 50.0]);
                            }
                            c2.f.push([base, base + 1, base + 2]);
                        }
                        c2
                    }
                };
                translate(&mut a, [reach * 4.0, rng.uniform(-1.0, 1.0), rng.uniform(-1.0, 1.0)]);
                translate(&mut b, [reach * 4.0, rng.uniform(-1.0, 1.0) + 100.0, rng.uniform(-1.0, 1.0)]);
                reach = reach * 4.0 + a.size().max(b.size()) + 200.0;
                steps.push(Step::ForkAppend(a, b));
            }
            _ => steps.push(Step::CloneAndContinue),
        }
    }
    Sc::History { label: "query-change-query".into(), mesh: m, steps }
}

fn gen_voxels(rng: &mut Rng, tier: Tier) -> Sc {
    let max_side = if tier == Tier::Quick { 8 } else { 12 };
    let side = 2 + rng.below(max_side - 1) as i32;
    // offsets: small, or far out (around powers of two, where a packed or narrowed key would wrap)
    let far = |rng: &mut Rng| -> i32 {
        match rng.below(6) {
            0 | 1 | 2 => rng.range(-20, 5) as i32,
            3 => (*rng.pick(&[1i64 << 20, -(1i64 << 20), 1i64 << 21, -(1i64 << 21), 1i64 << 16, -(1i64 << 16)]) + rng.range(-6, 2)) as i32,
            4 => (*rng.pick(&[1i64 << 30, -(1i64 << 30), (1i64 << 31) - 40, -(1i64 << 31) + 40]) + rng.range(-6, 2)) as i32,
            _ => rng.range(-2_000_000, 2_000_000) as i32,
        }
    };
    let off = [far(rng), far(rng), far(rng)];
    let mut cells: Vec<[i32; 3]> = Vec::new();
    let label;
    match rng.below(4) {
        0 => {
            // diagonal-only contacts: a staircase of cells touching at corners / edges
            label = "diagonal-chain";
            let n = 2 + rng.below(12);
            let mut p = [0i32; 3];
            cells.push(p);
            for _ in 0..n {
                let step = [rng.range(-1, 1) as i32, rng.range(-1, 1) as i32, rng.range(-1, 1) as i32];
                if step == [0, 0, 0] {
                    continue;
                }
                // occasionally jump by two: a true gap
                let k = if rng.chance(0.2) { 2 } else { 1 };
                p = [p[0] + k * step[0], p[1] + k * step[1], p[2] + k * step[2]];
                cells.push(p);
            }
        }
        1 => {
            label = "blobs";
            let nb = 1 + rng.below(4);
            for b in 0..nb {
                let c = [b as i32 * (side + rng.below(3) as i32), rng.below(3) as i32, rng.below(3) as i32];
                let r = 1 + rng.below(3) as i32;
                for x in -r..=r {
                    for y in -r..=r {
                        for z in -r..=r {
                            if x * x + y * y + z * z <= r * r && rng.chance(0.9) {
                                cells.push([c[0] + x, c[1] + y, c[2] + z]);
                            }
                        }
                    }
                }
            }
        }
        _ => {
            label = "random-density";
            let density = *rng.pick(&[0.05, 0.1, 0.2, 0.35, 0.6, 0.9]);
            for x in 0..side {
                for y in 0..side {
                    for z in 0..side {
                        if rng.chance(density) {
                            cells.push([x, y, z]);
                        }
                    }
                }
            }
        }
    }
    // keep two cells of room to the ends of the i32 range: the neighbourhood scan adds +-1
    let mut off = off;
    for k in 0..3 {
        let lo = cells.iter().map(|c| c[k] as i64).min().unwrap_or(0);
        let hi = cells.iter().map(|c| c[k] as i64).max().unwrap_or(0);
        let o = (off[k] as i64).clamp(i32::MIN as i64 + 2 - lo, i32::MAX as i64 - 2 - hi);
        off[k] = o as i32;
    }
    let set: BTreeSet<[i32; 3]> = cells.iter().map(|c| [c[0] + off[0], c[1] + off[1], c[2] + off[2]]).collect();
    let mut cells: Vec<[i32; 3]> = set.into_iter().collect();
    if cells.is_empty() {
        cells.push(off);
    }
    rng.shuffle(&mut cells);
    Sc::Voxels { label: label.into(), cells }
}

fn gen_chains(rng: &mut Rng, tier: Tier) -> Sc {
    let max_pairs = if tier == Tier::Quick { 60 } else { 500 };
    let target = 1 + rng.below(max_pairs);
    let branching = rng.chance(0.3);
    // distinct labels from a sparse range
    let mut labels: BTreeSet<u32> = BTreeSet::new();
    let wide = rng.chance(0.3);
    while labels.len() < target * 2 + 40 {
        labels.insert(if wide { (rng.next_u64() >> 32) as u32 | if rng.chance(0.5) { 0xFFFF_0000 } else { 0 } } else { rng.below(100_000) as u32 });
    }
    // the extreme labels are legal vertex ids as well
    if rng.chance(0.25) {
        labels.insert(u32::MAX);
        labels.insert(0);
        labels.insert(u32::MAX - 1);
    }
    let mut labels: Vec<u32> = labels.into_iter().collect();
    rng.shuffle(&mut labels);
    // ... and should turn up early, where they are used
    if rng.chance(0.5) {
        if let Some(i) = labels.iter().position(|&l| l == u32::MAX) {
            let j = rng.below(labels.len().min(8));
            labels.swap(i, j);
        }
    }
    let mut pairs: Vec<[u32; 2]> = Vec::new();
    let mut li = 0;
    while pairs.len() < target {
        let len = (1 + rng.below(12)).min(target - pairs.len());
        let cycle = len >= 2 && rng.chance(0.3);
        let nodes: Vec<u32> = labels[li..li + len + 1].to_vec();
        li += len + 1;
        if cycle {
            // `len` pairs over `len` nodes
            for k in 0..len {
                pairs.push([nodes[k], nodes[(k + 1) % len]]);
            }
        } else {
            for k in 0..len {
                pairs.push([nodes[k], nodes[k + 1]]);
            }
        }
    }
    if branching {
        let extra = 1 + rng.below(4);
        for _ in 0..extra {
            let a = pairs[rng.below(pairs.len())][rng.below(2)];
            let b = pairs[rng.below(pairs.len())][rng.below(2)];
            pairs.push([a, b]);
        }
        // tails: a path of fresh labels leaving or entering a label that is already in use (a loop
        // with a tail is the smallest input on which a chain can close before the pairs run out)
        for _ in 0..rng.below(3) {
            let at = pairs[rng.below(pairs.len())][rng.below(2)];
            let len = 1 + rng.below(3);
            if li + len >= labels.len() {
                break;
            }
            let fresh: Vec<u32> = labels[li..li + len].to_vec();
            li += len;
            if rng.chance(0.5) {
                let mut prev = at;
                for &n in &fresh {
                    pairs.push([prev, n]);
                    prev = n;
                }
            } else {
                let mut next = at;
                for &n in &fresh {
                    pairs.push([n, next]);
                    next = n;
                }
            }
        }
    }
    match rng.below(3) {
        0 => {}
        1 => pairs.reverse(),
        _ => rng.shuffle(&mut pairs),
    }
    Sc::Chains { label: if branching { "branching".into() } else { "paths-and-cycles".into() }, branching, pairs }
}

// ---------------------------------------------------------------------------------------------
// reference models

fn voxel_components(cells: &[[i32; 3]]) -> BTreeSet<BTreeSet<[i32; 3]>> {
    let set: BTreeSet<[i32; 3]> = cells.iter().copied().collect();
    let mut seen: BTreeSet<[i32; 3]> = BTreeSet::new();
    let mut out = BTreeSet::new();
    for &c in &set {
        if seen.contains(&c) {
            continue;
        }
        let mut comp = BTreeSet::new();
        let mut stack = vec![c];
        seen.insert(c);
        while let Some(p) = stack.pop() {
            comp.insert(p);
            for dx in -1..=1 {
                for dy in -1..=1 {
                    for dz in -1..=1 {
                        let q = [p[0] + dx, p[1] + dy, p[2] + dz];
                        if set.contains(&q) && seen.insert(q) {
                            stack.push(q);
                        }
                    }
                }
            }
        }
        out.insert(comp);
    }
    out
}

fn is_non_branching(pairs: &[[u32; 2]]) -> bool {
    let mut firsts = BTreeSet::new();
    let mut seconds = BTreeSet::new();
    for p in pairs {
        if p[0] == p[1] || !firsts.insert(p[0]) || !seconds.insert(p[1]) {
            return false;
        }
    }
    true
}

/// A label at which some chain starts or stops (without closing on itself there) although exactly
/// one input pair arrives at it and exactly one leaves it.
fn loose_unambiguous_end(pairs: &[[u32; 2]], chains: &[Vec<u32>]) -> Option<u32> {
    let mut indeg: BTreeMap<u32, u32> = BTreeMap::new();
    let mut outdeg: BTreeMap<u32, u32> = BTreeMap::new();
    for p in pairs {
        *outdeg.entry(p[0]).or_insert(0) += 1;
        *indeg.entry(p[1]).or_insert(0) += 1;
    }
    let through = |v: u32| indeg.get(&v) == Some(&1) && outdeg.get(&v) == Some(&1);
    for c in chains {
        let (Some(&s), Some(&e)) = (c.first(), c.last()) else { continue };
        if s != e {
            if through(s) {
                return Some(s);
            }
            if through(e) {
                return Some(e);
            }
        }
    }
    None
}

/// Maximal paths and cycles of a non-branching pair list. Cycles are returned canonically
/// rotated (smallest label first, direction kept).
fn chain_model(pairs: &[[u32; 2]]) -> (BTreeSet<Vec<u32>>, BTreeSet<Vec<u32>>) {
    let succ: BTreeMap<u32, u32> = pairs.iter().map(|p| (p[0], p[1])).collect();
    let has_pred: BTreeSet<u32> = pairs.iter().map(|p| p[1]).collect();
    let mut used: BTreeSet<u32> = BTreeSet::new();
    let mut paths = BTreeSet::new();
    for (&a, _) in succ.iter() {
        if has_pred.contains(&a) {
            continue;
        }
        let mut chain = vec![a];
        let mut cur = a;
        used.insert(a);
        while let Some(&n) = succ.get(&cur) {
            chain.push(n);
            used.insert(n);
            cur = n;
        }
        paths.insert(chain);
    }
    let mut cycles = BTreeSet::new();
    for (&a, _) in succ.iter() {
        if used.contains(&a) {
            continue;
        }
        let mut cyc = vec![a];
        used.insert(a);
        let mut cur = succ[&a];
        while cur != a {
            cyc.push(cur);
            used.insert(cur);
            cur = succ[&cur];
        }
        cycles.insert(rotate_min(&cyc));
    }
    (paths, cycles)
}

fn rotate_min(c: &[u32]) -> Vec<u32> {
    let (i, _) = c.iter().enumerate().min_by_key(|(_, &x)| x).unwrap();
    (0..c.len()).map(|k| c[(i + k) % c.len()]).collect()
}

// ---------------------------------------------------------------------------------------------
// oracle

fn judge_mesh(o: &MeshObs, vi: usize, stats: &mut Stats, out: &mut Vec<Violation>) {
    let m = &o.mesh;
    let counts = m.edge_counts();
    let boundary: BTreeSet<(u32, u32)> = counts.iter().filter(|(_, &c)| c == 1).map(|(e, _)| *e).collect();
    let pinched = m.has_pinched_vertex();
    let repeated = m.has_repeated_directed_edge();

    // --- edge table and loops
    match &o.edges {
        OpResult::Budget(b) => out.push(Violation::new(
            "step-budget",
            "Mesh::calc_edges",
            format!("did not finish within {} ticks on {} vertices / {} faces", b, m.v.len(), m.f.len()),
            &[vi],
        )),
        OpResult::Panic(msg) => out.push(Violation::new("panic", "Mesh::calc_edges", msg.clone(), &[vi])),
        OpResult::Done(Err(e)) => out.push(Violation::new(
            "unexpected-error",
            "Mesh::calc_edges",
            format!("Err({}) on a mesh with no edge in more than two faces", e),
            &[vi],
        )),
        OpResult::Done(Ok(e)) => {
            let mut bad: Option<String> = None;
            let listed: Vec<(u32, u32)> = e.edges.iter().map(|p| ekey(p[0], p[1])).collect();
            let listed_set: BTreeSet<(u32, u32)> = listed.iter().copied().collect();
            let model_set: BTreeSet<(u32, u32)> = counts.keys().copied().collect();
            if listed.len() != listed_set.len() {
                bad = Some("an undirected edge is listed more than once".into());
            } else if listed_set != model_set {
                bad = Some(format!(
                    "edge set differs from the faces' edges: {} listed, {} expected",
                    listed_set.len(),
                    model_set.len()
                ));
            } else if e.lengths.len() != e.edges.len() {
                bad = Some("edge_lengths has a different length than edges".into());
            } else if e.face_edges.len() != m.f.len() {
                bad = Some("face_edges has a different length than faces".into());
            }
            if bad.is_none() {
                for (k, p) in e.edges.iter().enumerate() {
                    let want = dist3(m.v[p[0] as usize], m.v[p[1] as usize]);
                    if (e.lengths[k] - want).abs() > 1e-12 * want.max(1.0) || !e.lengths[k].is_finite() {
                        bad = Some(format!("edge {} ({},{}) has length {} but its vertices are {} apart", k, p[0], p[1], e.lengths[k], want));
                        break;
                    }
                }
            }
            if bad.is_none() {
                for (i, fe) in e.face_edges.iter().enumerate() {
                    let f = m.f[i];
                    let want: BTreeSet<(u32, u32)> = (0..3).map(|k| ekey(f[k], f[(k + 1) % 3])).collect();
                    let mut got = BTreeSet::new();
                    let mut ok = true;
                    for &ei in fe {
                        match e.edges.get(ei as usize) {
                            Some(p) => {
                                got.insert(ekey(p[0], p[1]));
                            }
                            None => ok = false,
                        }
                    }
                    if !ok || got != want {
                        bad = Some(format!("face {} {:?} is mapped to edges {:?} which are not its three edges", i, f, fe));
                        break;
                    }
                }
            }
            if let Some(msg) = bad {
                out.push(Violation::new("edge-table-mismatch", "Mesh::calc_edges", msg, &[vi]));
            }
            // loops: closed cycles over boundary edges, each boundary edge exactly once
            let mut used: BTreeMap<(u32, u32), usize> = BTreeMap::new();
            let mut lbad: Option<String> = None;
            for l in &e.loops {
                // a cycle may be written with its first vertex repeated at the end
                let l: &[u32] = if l.len() > 1 && l.first() == l.last() { &l[..l.len() - 1] } else { &l[..] };
                if l.len() < 3 {
                    lbad = Some(format!("loop {:?} has fewer than three vertices", l));
                    break;
                }
                for k in 0..l.len() {
                    let key = ekey(l[k], l[(k + 1) % l.len()]);
                    if !boundary.contains(&key) {
                        lbad = Some(format!("loop {:?} steps along {:?} which is not a boundary edge", l, key));
                        break;
                    }
                    *used.entry(key).or_insert(0) += 1;
                }
                if lbad.is_some() {
                    break;
                }
            }
            if lbad.is_none() {
                if let Some((k, c)) = used.iter().find(|(_, &c)| c > 1) {
                    lbad = Some(format!("boundary edge {:?} occurs {} times in the loops", k, c));
                } else if used.len() != boundary.len() {
                    let missing = boundary.iter().find(|b| !used.contains_key(b)).unwrap();
                    lbad = Some(format!(
                        "boundary edge {:?} is in no loop ({} of {} boundary edges covered by {} loops)",
                        missing,
                        used.len(),
                        boundary.len(),
                        e.loops.len()
                    ));
                }
            }
            if lbad.is_none() {
                if let Some(cycles) = m.simple_boundary_cycles() {
                    // unique decomposition: the loops must be exactly these cycles
                    let want: BTreeSet<Vec<u32>> = cycles.iter().map(|c| canonical_cycle(c)).collect();
                    let got: BTreeSet<Vec<u32>> = e.loops.iter().map(|c| canonical_cycle(open_cycle(c))).collect();
                    if want != got || got.len() != e.loops.len() {
                        lbad = Some(format!("loops {:?} are not the boundary cycles {:?}", e.loops, cycles));
                    }
                }
            }
            if let Some(msg) = lbad {
                out.push(Violation::new("boundary-loop-mismatch", "Mesh::calc_edges", msg, &[vi]));
            }
            if e.loops.len() >= 2 {
                stats.bump("probe:two-or-more-boundary-loops");
            }
        }
    }

    // --- patches
    let model_patches: BTreeSet<BTreeSet<usize>> =
        m.edge_components().into_iter().map(|c| c.into_iter().collect()).collect();
    match &o.patches {
        OpResult::Budget(b) => out.push(Violation::new(
            "step-budget",
            "Mesh::get_patches",
            format!("did not finish within {} ticks", b),
            &[vi],
        )),
        OpResult::Panic(msg) => out.push(Violation::new("panic", "Mesh::get_patches", msg.clone(), &[vi])),
        OpResult::Done(p) => {
            let total: usize = p.iter().map(|x| x.len()).sum();
            let got: BTreeSet<BTreeSet<usize>> = p.iter().map(|x| x.iter().copied().collect()).collect();
            let all: BTreeSet<usize> = p.iter().flat_map(|x| x.iter().copied()).collect();
            if total != m.f.len() || all.len() != m.f.len() || all.iter().next_back().is_some_and(|&x| x >= m.f.len()) {
                out.push(Violation::new(
                    "patch-partition-mismatch",
                    "Mesh::get_patches",
                    format!("patches {:?} do not contain each of the {} faces exactly once", p, m.f.len()),
                    &[vi],
                ));
            } else if got != model_patches || got.len() != p.len() {
                out.push(Violation::new(
                    "patch-partition-mismatch",
                    "Mesh::get_patches",
                    format!("patches {:?} but faces connected through shared edges are {:?}", abbreviate(p), abbreviate_sets(&model_patches)),
                    &[vi],
                ));
            }
        }
    }

    // --- patch boundaries
    match &o.bounds {
        OpResult::Budget(b) => out.push(Violation::new(
            "step-budget",
            "Mesh::get_patch_boundary_points",
            format!("did not finish within {} ticks", b),
            &[vi],
        )),
        OpResult::Panic(msg) => out.push(Violation::new("panic", "Mesh::get_patch_boundary_points", msg.clone(), &[vi])),
        OpResult::Done(Err(e)) => {
            stats.bump("patch-boundary:returned-err");
            if !pinched && !repeated {
                // a consistently wound mesh without vertex-only contacts has a unique successor
                // at every boundary vertex: nothing for the operation to refuse
                out.push(Violation::new(
                    "unexpected-error",
                    "Mesh::get_patch_boundary_points",
                    format!("Err({}) on a consistently wound mesh without vertex-only contacts", e),
                    &[vi],
                ));
            }
        }
        OpResult::Done(Ok(lines)) => {
            let index: BTreeMap<[u64; 3], u32> = m
                .v
                .iter()
                .enumerate()
                .map(|(i, p)| ([p[0].to_bits(), p[1].to_bits(), p[2].to_bits()], i as u32))
                .collect();
            // which patch owns each boundary edge
            let mut owner: BTreeMap<(u32, u32), usize> = BTreeMap::new();
            for (pi, comp) in m.edge_components().iter().enumerate() {
                for &fi in comp {
                    let f = m.f[fi];
                    for k in 0..3 {
                        let key = ekey(f[k], f[(k + 1) % 3]);
                        if boundary.contains(&key) {
                            owner.insert(key, pi);
                        }
                    }
                }
            }
            let mut used: BTreeSet<(u32, u32)> = BTreeSet::new();
            let mut bad: Option<String> = None;
            'lines: for l in lines {
                let mut ids = Vec::new();
                for p in l {
                    match index.get(&[p[0].to_bits(), p[1].to_bits(), p[2].to_bits()]) {
                        Some(&i) => ids.push(i),
                        None => {
                            bad = Some(format!("returned point {:?} is not a vertex of the mesh", p));
                            break 'lines;
                        }
                    }
                }
                if ids.len() > 1 && ids.first() == ids.last() {
                    ids.pop();
                }
                if ids.len() < 3 {
                    bad = Some(format!("boundary {:?} has fewer than three points", ids));
                    break;
                }
                let mut patch = None;
                for k in 0..ids.len() {
                    let key = ekey(ids[k], ids[(k + 1) % ids.len()]);
                    match owner.get(&key) {
                        None => {
                            bad = Some(format!("boundary {:?} steps along {:?} which is not a patch boundary edge", ids, key));
                            break 'lines;
                        }
                        Some(&pi) => {
                            if *patch.get_or_insert(pi) != pi {
                                bad = Some(format!("boundary {:?} mixes edges of two patches", ids));
                                break 'lines;
                            }
                        }
                    }
                    if !used.insert(key) {
                        bad = Some(format!("patch boundary edge {:?} is reported twice", key));
                        break 'lines;
                    }
                }
            }
            if bad.is_none() && !pinched && !repeated && used.len() != boundary.len() {
                bad = Some(format!("{} of {} patch boundary edges are covered", used.len(), boundary.len()));
            }
            if let Some(msg) = bad {
                out.push(Violation::new("patch-boundary-mismatch", "Mesh::get_patch_boundary_points", msg, &[vi]));
            }
        }
    }

    // --- primitives: consistent winding and outward normals (companion: no decision involved)
    if o.primitive && vi == 0 {
        stats.bump("companion:primitive-winding-and-normals");
        if repeated {
            out.push(Violation::new(
                "primitive-winding",
                "primitive",
                "two faces of the generated primitive traverse a shared edge in the same direction".into(),
                &[vi],
            ));
        }
        match &o.normals {
            OpResult::Done(Ok(ns)) => {
                let mut c = [0.0; 3];
                for p in &m.v {
                    c = add(c, *p);
                }
                c = scale(c, 1.0 / m.v.len() as f64);
                for (i, n) in ns.iter().enumerate() {
                    let t = m.tri(i);
                    let fc = scale(add(add(t[0], t[1]), t[2]), 1.0 / 3.0);
                    let mut outward = sub(fc, c);
                    if counts.values().any(|&k| k == 1) {
                        // open lateral surface (cylinder): outward means radially outward
                        outward[2] = 0.0;
                    }
                    if dot(*n, outward) <= 0.0 {
                        out.push(Violation::new(
                            "primitive-normal-inward",
                            "primitive",
                            format!("face {} {:?} has normal {:?} pointing inward", i, m.f[i], n),
                            &[vi],
                        ));
                        break;
                    }
                }
            }
            OpResult::Done(Err(e)) => out.push(Violation::new("unexpected-error", "Mesh::get_face_normals", e.clone(), &[vi])),
            OpResult::Panic(msg) => out.push(Violation::new("panic", "Mesh::get_face_normals", msg.clone(), &[vi])),
            OpResult::Budget(_) => {}
        }
    }
}

/// A cycle written with its first vertex repeated at the end, without the repetition.
fn open_cycle(l: &[u32]) -> &[u32] {
    if l.len() > 1 && l.first() == l.last() {
        &l[..l.len() - 1]
    } else {
        l
    }
}

fn abbreviate(p: &[Vec<usize>]) -> String {
    let s = format!("{:?}", p);
    if s.len() > 300 {
        format!("{}… ({} patches)", &s[..300], p.len())
    } else {
        s
    }
}
fn abbreviate_sets(p: &BTreeSet<BTreeSet<usize>>) -> String {
    let s = format!("{:?}", p);
    if s.len() > 300 {
        format!("{}… ({} classes)", &s[..300], p.len())
    } else {
        s
    }
}

/// Order-free canonical form of everything the property says must not depend on the order.
fn canonical_mesh(o: &MeshObs) -> Option<String> {
    let e = o.edges.done()?.as_ref().ok()?;
    let p = o.patches.done()?;
    let mut edges: Vec<(u32, u32)> = e.edges.iter().map(|p| ekey(p[0], p[1])).collect();
    edges.sort();
    let mut covered: Vec<(u32, u32)> = Vec::new();
    for l in &e.loops {
        let l = open_cycle(l);
        for k in 0..l.len() {
            covered.push(ekey(l[k], l[(k + 1) % l.len()]));
        }
    }
    covered.sort();
    let patches: BTreeSet<BTreeSet<usize>> = p.iter().map(|x| x.iter().copied().collect()).collect();
    // The loops themselves, as cyclic sequences up to rotation and direction. Where faces touch
    // only at a vertex several decompositions of the boundary into closed loops are legitimate,
    // and the model accepts any of them - but "the same answer whatever the hash-iteration order"
    // still means that the decomposition may not change with the order.
    let loops: BTreeSet<Vec<u32>> = e.loops.iter().map(|c| canonical_cycle(open_cycle(c))).collect();
    Some(format!("{:?}|{:?}|{:?}|{:?}", edges, covered, patches, loops))
}

impl Property for C12 {
    type Scenario = Sc;
    type Obs = Obs;

    fn id(&self) -> &'static str {
        "C12"
    }

    fn runs(&self, tier: Tier) -> u64 {
        match tier {
            Tier::Quick => 200_000,
            Tier::Thorough => 3_000_000,
        }
    }

    fn generate(&self, rng: &mut Rng, tier: Tier) -> Sc {
        // large inputs are rare (they cost a thousand ordinary runs each): block-sized effects at
        // 2^16 sorted edges need more than 21,846 faces, long walks need long boundaries
        let big_p = if tier == Tier::Quick { 0.00006 } else { 0.00002 };
        if rng.chance(big_p) {
            return if rng.chance(0.6) {
                Sc::Big { kind: BigKind::Grid, a: 100 + rng.below(24), b: 108 + rng.below(10) }
            } else if tier == Tier::Thorough && rng.chance(0.15) {
                // a boundary walk of more than 2^20 edges
                Sc::Big { kind: BigKind::Fan, a: (1 << 20) + 1 + rng.below(16), b: 0 }
            } else {
                Sc::Big { kind: BigKind::Fan, a: *rng.pick(&[65_535usize, 65_536, 65_537, 70_001, 30_000]), b: 0 }
            };
        }
        match rng.weighted(&[30, 30, 6, 6, 14, 14, 1, 6]) {
            6 => gen_sparse(rng),
            7 => gen_history(rng),
            0 => gen_small_arbitrary(rng),
            1 => gen_structured(rng, tier),
            2 => Sc::Box { w: rng.log_uniform(0.01, 100.0), h: rng.log_uniform(0.01, 100.0), d: rng.log_uniform(0.01, 100.0) },
            3 => Sc::Cylinder { r: rng.log_uniform(0.01, 100.0), h: rng.log_uniform(0.01, 100.0), steps: 3 + rng.below(62) },
            4 => gen_voxels(rng, tier),
            _ => gen_chains(rng, tier),
        }
    }

    fn swarm(&self, rng: &mut Rng, sc: &Sc) -> Swarm {
        let small = match sc {
            Sc::Mesh { mesh, .. } => mesh.f.len() <= 20,
            Sc::Sparse { .. } => false,
            Sc::History { .. } => true,
            Sc::Big { .. } => false,
            Sc::Box { .. } => true,
            Sc::Cylinder { steps, .. } => *steps <= 10,
            Sc::Voxels { cells, .. } => cells.len() <= 60,
            Sc::Chains { .. } => true,
        };
        let mut w = *rng.pick(&[[4u32, 1, 1, 1, 0], [1, 1, 1, 1, 0], [1, 0, 0, 0, 0], [2, 2, 2, 2, 0], [0, 1, 1, 2, 0]]);
        if small && rng.chance(0.5) {
            w[4] = 1;
        }
        Swarm { order_weights: w, fault_rate: 0.0, boundary_bits: Vec::new() }
    }

    fn vectors(&self, rng: &mut Rng, tier: Tier, sc: &Sc) -> usize {
        match sc {
            Sc::Chains { .. } => 1,
            Sc::Sparse { .. } => 2,
            Sc::History { .. } => 2 + rng.below(3),
            Sc::Big { .. } => 2,
            Sc::Mesh { mesh, .. } if mesh.f.len() > 300 => 2,
            _ => match tier {
                Tier::Quick => 4 + rng.below(5),
                Tier::Thorough => 4 + rng.below(29),
            },
        }
    }

    fn execute(&self, sc: &Sc, sim: &Sim) -> Obs {
        match sc {
            Sc::Mesh { mesh, .. } => {
                let built = sim.op("Mesh::new", 1_000_000, || to_mesh_any_flag(mesh));
                match built {
                    OpResult::Done(me) => Obs::Mesh(Box::new(observe_mesh(sim, &me, false))),
                    OpResult::Panic(m) => Obs::Construct(m),
                    OpResult::Budget(_) => Obs::Construct("budget".into()),
                }
            }
            Sc::Big { kind, a, b } => {
                let full = big_mesh(*kind, *a, *b);
                match sim.op("Mesh::new", 1_000_000, || to_mesh_any_flag(&full)) {
                    OpResult::Done(me) => Obs::Mesh(Box::new(observe_mesh(sim, &me, false))),
                    OpResult::Panic(m) => Obs::Construct(m),
                    OpResult::Budget(_) => Obs::Construct("budget".into()),
                }
            }
            Sc::History { mesh, steps, .. } => {
                let mut me = match sim.op("Mesh::new", 1_000_000, || to_mesh_any_flag(mesh)) {
                    OpResult::Done(me) => me,
                    OpResult::Panic(m) => return Obs::Construct(m),
                    OpResult::Budget(_) => return Obs::Construct("budget".into()),
                };
                let mut stages = vec![observe_mesh(sim, &me, false)];
                let mut forks: Vec<(usize, MeshObs)> = Vec::new();
                for s in steps {
                    let r = match s {
                        Step::Append(o) => {
                            let other = to_mesh_any_flag(o);
                            sim.op("Mesh::append", 1_000_000, || me.append(&other).map_err(|e| e.to_string())).map(|_| ())
                        }
                        Step::AppendBuilt(o, merge, delete) => {
                            let verts: Vec<Point3> = o.v.iter().map(|p| Point3::new(p[0], p[1], p[2])).collect();
                            let other = match sim.op("Mesh::new_with_options", 1_000_000, || Mesh::new_with_options(verts, o.f.clone(), false, *merge, *delete, None).map_err(|e| e.to_string())) {
                                OpResult::Done(Ok(m)) => m,
                                OpResult::Done(Err(e)) => return Obs::Construct(format!("new_with_options refused a clean quad: {}", e)),
                                OpResult::Panic(m) => return Obs::Construct(m),
                                OpResult::Budget(_) => return Obs::Construct("budget".into()),
                            };
                            sim.op("Mesh::append", 1_000_000, || me.append(&other).map_err(|e| e.to_string())).map(|_| ())
                        }
                        Step::Transform(p) => {
                            let iso = pose_to_iso(p);
                            sim.op("Mesh::transform", 1_000_000, || me.transform(&iso))
                        }
                        Step::CloneAndContinue => {
                            let c = me.clone();
                            me = c;
                            OpResult::Done(())
                        }
                        Step::ForkAppend(a, b2) => {
                            let mut fork = me.clone();
                            let (ma, mb) = (to_mesh_any_flag(a), to_mesh_any_flag(b2));
                            let r1 = sim.op("Mesh::append", 1_000_000, || me.append(&ma).map_err(|e| e.to_string())).map(|_| ());
                            let r2 = sim.op("Mesh::append", 1_000_000, || fork.append(&mb).map_err(|e| e.to_string())).map(|_| ());
                            // the original first, then the clone, both alive
                            let first = observe_mesh(sim, &me, false);
                            forks.push((stages.len(), observe_mesh(sim, &fork, false)));
                            stages.push(first);
                            if let OpResult::Panic(m) = r2 {
                                return Obs::Construct(format!("history step panicked: {}", m));
                            }
                            if let OpResult::Panic(m) = r1 {
                                return Obs::Construct(format!("history step panicked: {}", m));
                            }
                            continue;
                        }
                    };
                    if let OpResult::Panic(m) = r {
                        return Obs::Construct(format!("history step panicked: {}", m));
                    }
                    stages.push(observe_mesh(sim, &me, false));
                }
                // the forks are judged like stages of their own (the model is derived from the
                // mesh the library holds)
                for (_, f) in forks {
                    stages.push(f);
                }
                Obs::Stages(stages)
            }
            Sc::Sparse { mesh, ids, n_vertices, .. } => {
                let full = expand_sparse(mesh, ids, *n_vertices);
                match sim.op("Mesh::new", 1_000_000, || to_mesh_any_flag(&full)) {
                    OpResult::Done(me) => Obs::Mesh(Box::new(observe_mesh(sim, &me, false))),
                    OpResult::Panic(m) => Obs::Construct(m),
                    OpResult::Budget(_) => Obs::Construct("budget".into()),
                }
            }
            Sc::Box { w, h, d } => match sim.op("Mesh::create_box", 1_000_000, || Mesh::create_box(*w, *h, *d, false)) {
                OpResult::Done(me) => Obs::Mesh(Box::new(observe_mesh(sim, &me, true))),
                OpResult::Panic(m) => Obs::Construct(m),
                OpResult::Budget(_) => Obs::Construct("budget".into()),
            },
            Sc::Cylinder { r, h, steps } => match sim.op("Mesh::create_cylinder", 1_000_000, || Mesh::create_cylinder(*r, *h, *steps)) {
                OpResult::Done(me) => Obs::Mesh(Box::new(observe_mesh(sim, &me, true))),
                OpResult::Panic(m) => Obs::Construct(m),
                OpResult::Budget(_) => Obs::Construct("budget".into()),
            },
            Sc::Voxels { cells, .. } => {
                let b = budget(cells.len()) + 30 * cells.len() as u64;
                Obs::Voxels(sim.op("raster3::clusters_from_sparse", b, || {
                    // the caller's own set: its order is an environment decision as well
                    let set: SimHashSet<(i32, i32, i32)> = cells.iter().map(|c| (c[0], c[1], c[2])).collect();
                    engeom::raster3::clusters_from_sparse(set)
                        .into_iter()
                        .map(|c| c.into_iter().map(|v| [v.0, v.1, v.2]).collect())
                        .collect()
                }))
            }
            Sc::Chains { pairs, .. } => Obs::Chains(sim.op("indices::chained_indices", budget(pairs.len()), || {
                engeom::common::indices::chained_indices(pairs)
            })),
        }
    }

    fn judge(&self, sc: &Sc, runs: &[VectorRun<Obs>], stats: &mut Stats) -> Vec<Violation> {
        let mut out = Vec::new();
        match sc {
            Sc::Mesh { .. } | Sc::Sparse { .. } | Sc::Big { .. } | Sc::Box { .. } | Sc::Cylinder { .. } => {
                if matches!(sc, Sc::Sparse { .. }) {
                    stats.bump("probe:vertex-index-above-65535");
                }
                if let Sc::Big { kind, a, b } = sc {
                    stats.bump("probe:large-mesh");
                    if big_mesh(*kind, *a, *b).f.len() * 3 > 65_536 {
                        stats.bump("probe:more-than-65536-directed-edges");
                    }
                }
                let mut canon: Vec<Option<String>> = Vec::new();
                for (vi, r) in runs.iter().enumerate() {
                    match &r.obs {
                        Obs::Mesh(o) => {
                            if vi == 0 {
                                if o.mesh.has_pinched_vertex() {
                                    stats.bump("probe:pinched-vertex");
                                }
                                if o.mesh.has_repeated_directed_edge() {
                                    stats.bump("probe:same-directed-edge-twice");
                                }
                                if o.mesh.edge_components().len() > 1 {
                                    stats.bump("probe:several-patches");
                                }
                            }
                            judge_mesh(o, vi, stats, &mut out);
                            canon.push(canonical_mesh(o));
                        }
                        Obs::Construct(msg) => {
                            out.push(Violation::new("panic", "Mesh::new", msg.clone(), &[vi]));
                            canon.push(None);
                        }
                        _ => unreachable!(),
                    }
                }
                // same answer as sets whatever the order
                if let Some((i0, c0)) = canon.iter().enumerate().find_map(|(i, c)| c.as_ref().map(|c| (i, c))) {
                    for (i, c) in canon.iter().enumerate() {
                        if let Some(c) = c {
                            if c != c0 {
                                stats.bump("probe:canonical-output-differs-between-orders");
                                out.push(Violation::new(
                                    "order-dependent-answer",
                                    "Mesh::calc_edges+get_patches",
                                    format!("decision vectors {} and {} give different answers as sets", i0, i),
                                    &[i0, i],
                                ));
                                break;
                            }
                        }
                    }
                }
            }
            Sc::History { mesh, steps, .. } => {
                stats.bump("probe:query-change-query-history");
                for (vi, r) in runs.iter().enumerate() {
                    match &r.obs {
                        Obs::Construct(msg) => out.push(Violation::new("panic", "Mesh::new/append/transform", msg.clone(), &[vi])),
                        Obs::Stages(stages) => {
                            for (k, o) in stages.iter().enumerate() {
                                if k > steps.len() {
                                    // a fork: only the queries are judged
                                    let before = out.len();
                                    judge_mesh(o, vi, stats, &mut out);
                                    if out.len() > before {
                                        for v in out[before..].iter_mut() {
                                            v.message = format!("(clone kept alive beside the original in a query-change-query history) {}", v.message);
                                        }
                                        break;
                                    }
                                    continue;
                                }
                                // the mesh itself must be what the history says it is
                                let want = history_stage(mesh, steps, k);
                                let tol = 1e-9 * want.size();
                                // (only what the harness itself relies on: sizes and positions; the
                                // order in which append stores things is not C12's business)
                                let _ = tol;
                                let same = want.f.len() == o.mesh.f.len() && o.mesh.has_distinct_positions();
                                if !same {
                                    out.push(Violation::new(
                                        "mesh-after-history",
                                        "Mesh::append/transform",
                                        format!("after {} steps the mesh has {} vertices / {} faces, expected {} / {} (or coordinates differ)", k, o.mesh.v.len(), o.mesh.f.len(), want.v.len(), want.f.len()),
                                        &[vi],
                                    ));
                                    break;
                                }
                                // and every query must describe that mesh (the model is derived from
                                // the mesh as the library holds it now)
                                let before = out.len();
                                judge_mesh(o, vi, stats, &mut out);
                                if out.len() > before {
                                    for v in out[before..].iter_mut() {
                                        v.message = format!("(stage {} of a query-change-query history) {}", k, v.message);
                                    }
                                    break;
                                }
                            }
                        }
                        _ => unreachable!(),
                    }
                }
            }
            Sc::Voxels { cells, .. } => {
                let model = voxel_components(cells);
                if model.len() > 1 {
                    stats.bump("probe:several-voxel-clusters");
                }
                for (vi, r) in runs.iter().enumerate() {
                    let Obs::Voxels(o) = &r.obs else { unreachable!() };
                    match o {
                        OpResult::Budget(b) => out.push(Violation::new("step-budget", "raster3::clusters_from_sparse", format!("did not finish within {} ticks on {} voxels", b, cells.len()), &[vi])),
                        OpResult::Panic(m) => out.push(Violation::new("panic", "raster3::clusters_from_sparse", m.clone(), &[vi])),
                        OpResult::Done(cl) => {
                            let total: usize = cl.iter().map(|c| c.len()).sum();
                            let got: BTreeSet<BTreeSet<[i32; 3]>> = cl.iter().map(|c| c.iter().copied().collect()).collect();
                            let all: BTreeSet<[i32; 3]> = cl.iter().flat_map(|c| c.iter().copied()).collect();
                            if total != cells.len() || all.len() != cells.len() {
                                out.push(Violation::new("voxel-partition-mismatch", "raster3::clusters_from_sparse", format!("{} voxels in, {} out ({} distinct)", cells.len(), total, all.len()), &[vi]));
                            } else if got != model || got.len() != cl.len() {
                                out.push(Violation::new("voxel-partition-mismatch", "raster3::clusters_from_sparse", format!("{} clusters returned, 26-connected components are {}", cl.len(), model.len()), &[vi]));
                            }
                        }
                    }
                }
            }
            Sc::Chains { pairs, .. } => {
                let nb = is_non_branching(pairs);
                if nb {
                    stats.bump("chains:non-branching");
                } else {
                    stats.bump("chains:branching");
                }
                for (vi, r) in runs.iter().enumerate() {
                    let Obs::Chains(o) = &r.obs else { unreachable!() };
                    match o {
                        OpResult::Budget(b) => out.push(Violation::new("step-budget", "indices::chained_indices", format!("did not finish within {} ticks on {} pairs", b, pairs.len()), &[vi])),
                        OpResult::Panic(m) => out.push(Violation::new("panic", "indices::chained_indices", m.clone(), &[vi])),
                        OpResult::Done(chains) => {
                            let mut want: BTreeMap<[u32; 2], i64> = BTreeMap::new();
                            for p in pairs {
                                *want.entry(*p).or_insert(0) += 1;
                            }
                            let mut got: BTreeMap<[u32; 2], i64> = BTreeMap::new();
                            let mut short = false;
                            for c in chains {
                                if c.len() < 2 {
                                    short = true;
                                }
                                for w in c.windows(2) {
                                    *got.entry([w[0], w[1]]).or_insert(0) += 1;
                                }
                            }
                            if short || want != got {
                                out.push(Violation::new("chain-exactly-once", "indices::chained_indices", format!("consecutive pairs of the chains are not the input pairs exactly once each (input {} pairs, chains {:?})", pairs.len(), abbreviate_chains(chains)), &[vi]));
                            } else if let Some(v) = loose_unambiguous_end(pairs, chains) {
                                // holds for branching inputs too: a label with exactly one pair
                                // arriving and exactly one leaving offers no choice, so no chain
                                // may stop there unless it closes on itself there
                                out.push(Violation::new("chain-not-maximal", "indices::chained_indices", format!("a chain stops at label {} although exactly one pair arrives there and exactly one leaves (chains {:?})", v, abbreviate_chains(chains)), &[vi]));
                            } else if nb {
                                let (paths, cycles) = chain_model(pairs);
                                if !cycles.is_empty() {
                                    stats.bump("probe:chain-cycle");
                                }
                                let mut gp = BTreeSet::new();
                                let mut gc = BTreeSet::new();
                                for c in chains {
                                    if c.first() == c.last() && c.len() > 2 {
                                        gc.insert(rotate_min(&c[..c.len() - 1]));
                                    } else {
                                        gp.insert(c.clone());
                                    }
                                }
                                if gp != paths || gc != cycles || gp.len() + gc.len() != chains.len() {
                                    out.push(Violation::new("chain-not-maximal", "indices::chained_indices", format!("chains {:?} are not the maximal paths {:?} and cycles {:?}", abbreviate_chains(chains), paths.len(), cycles.len()), &[vi]));
                                }
                            }
                        }
                    }
                }
            }
        }
        out
    }

    fn raw_digest(&self, obs: &Obs) -> Digest {
        let mut d = Digest::new();
        match obs {
            Obs::Mesh(o) => {
                if let Some(Ok(e)) = o.edges.done() {
                    for l in &e.loops {
                        d.u64(l.len() as u64);
                        for &x in l {
                            d.u64(x as u64);
                        }
                    }
                    for fe in &e.face_edges {
                        for &x in fe {
                            d.u64(x as u64);
                        }
                    }
                } else {
                    d.u64(9991);
                }
                if let Some(p) = o.patches.done() {
                    for x in p {
                        d.u64(x.len() as u64);
                        for &y in x {
                            d.u64(y as u64);
                        }
                    }
                } else {
                    d.u64(9992);
                }
                if let Some(Ok(b)) = o.bounds.done() {
                    for l in b {
                        d.u64(l.len() as u64);
                        for p in l {
                            d.f64(p[0]);
                            d.f64(p[1]);
                            d.f64(p[2]);
                        }
                    }
                } else {
                    d.u64(9993);
                }
            }
            Obs::Construct(m) => d.str(m),
            Obs::Stages(st) => {
                for o in st {
                    if let Some(Ok(e)) = o.edges.done() {
                        for l in &e.loops {
                            d.u64(l.len() as u64);
                            for &x in l {
                                d.u64(x as u64);
                            }
                        }
                    }
                    if let Some(p) = o.patches.done() {
                        for x in p {
                            d.u64(x.len() as u64);
                        }
                    }
                }
            }
            Obs::Voxels(o) => match o.done() {
                Some(cl) => {
                    for c in cl {
                        d.u64(c.len() as u64);
                        for v in c {
                            d.u64(v[0] as u64);
                            d.u64(v[1] as u64);
                            d.u64(v[2] as u64);
                        }
                    }
                }
                None => d.u64(9994),
            },
            Obs::Chains(o) => match o.done() {
                Some(cl) => {
                    for c in cl {
                        d.u64(c.len() as u64);
                        for &v in c {
                            d.u64(v as u64);
                        }
                    }
                }
                None => d.u64(9995),
            },
        }
        d
    }

    fn shrink(&self, sc: &Sc) -> Vec<Sc> {
        let mut out = Vec::new();
        match sc {
            Sc::Mesh { label, mesh } => {
                for f in chunk_removals(&mesh.f, 1) {
                    out.push(Sc::Mesh { label: label.clone(), mesh: M { v: mesh.v.clone(), f } });
                }
                let c = mesh.compact();
                if c != *mesh {
                    out.push(Sc::Mesh { label: label.clone(), mesh: c });
                }
                // simple coordinates (distinct positions kept)
                let simple: Vec<[f64; 3]> = (0..mesh.v.len()).map(|i| [i as f64, ((i * i) % 7) as f64, ((i * 3) % 5) as f64]).collect();
                if simple != mesh.v {
                    out.push(Sc::Mesh { label: label.clone(), mesh: M { v: simple, f: mesh.f.clone() } });
                }
            }
            Sc::Big { kind, a, b } => {
                // smaller instances of the same rule
                for (na, nb) in [(a / 2, *b), (*a, b / 2), (a - 1, *b), (*a, b.saturating_sub(1))] {
                    let ok = match kind {
                        BigKind::Fan => na >= 3,
                        BigKind::Grid => na >= 1 && nb >= 1,
                    };
                    if ok && (na, nb) != (*a, *b) {
                        out.push(Sc::Big { kind: *kind, a: na, b: nb });
                    }
                }
            }
            Sc::History { label, mesh, steps } => {
                for s in chunk_removals(steps, 1) {
                    out.push(Sc::History { label: label.clone(), mesh: mesh.clone(), steps: s });
                }
                for f in chunk_removals(&mesh.f, 1).into_iter().take(24) {
                    out.push(Sc::History { label: label.clone(), mesh: M { v: mesh.v.clone(), f }.compact(), steps: steps.clone() });
                }
                for (si, s) in steps.iter().enumerate() {
                    if let Step::Append(o) = s {
                        for f in chunk_removals(&o.f, 1).into_iter().take(12) {
                            let mut st = steps.clone();
                            st[si] = Step::Append(M { v: o.v.clone(), f }.compact());
                            out.push(Sc::History { label: label.clone(), mesh: mesh.clone(), steps: st });
                        }
                    }
                }
            }
            Sc::Sparse { label, mesh, ids, n_vertices } => {
                let top = ids.iter().copied().max().unwrap_or(0) as usize + 1;
                for n in [top, (top + n_vertices) / 2, n_vertices - 1] {
                    if n >= top && n < *n_vertices {
                        out.push(Sc::Sparse { label: label.clone(), mesh: mesh.clone(), ids: ids.clone(), n_vertices: n });
                    }
                }
                // fewer faces (ids of dropped vertices go too)
                for f in chunk_removals(&mesh.f, 1) {
                    let sub = M { v: mesh.v.clone(), f };
                    let used: BTreeSet<u32> = sub.f.iter().flat_map(|x| x.iter().copied()).collect();
                    let keep: Vec<u32> = used.into_iter().collect();
                    let map: BTreeMap<u32, u32> = keep.iter().enumerate().map(|(n, &o)| (o, n as u32)).collect();
                    let m2 = M { v: keep.iter().map(|&o| sub.v[o as usize]).collect(), f: sub.f.iter().map(|x| [map[&x[0]], map[&x[1]], map[&x[2]]]).collect() };
                    let ids2 = keep.iter().map(|&o| ids[o as usize]).collect();
                    out.push(Sc::Sparse { label: label.clone(), mesh: m2, ids: ids2, n_vertices: *n_vertices });
                }
            }
            Sc::Box { w, h, d } => {
                if (*w, *h, *d) != (1.0, 1.0, 1.0) {
                    out.push(Sc::Box { w: 1.0, h: 1.0, d: 1.0 });
                }
            }
            Sc::Cylinder { r, h, steps } => {
                for s in [3usize, 4, steps / 2, steps - 1] {
                    if s >= 3 && s < *steps {
                        out.push(Sc::Cylinder { r: *r, h: *h, steps: s });
                    }
                }
                if (*r, *h) != (1.0, 1.0) {
                    out.push(Sc::Cylinder { r: 1.0, h: 1.0, steps: *steps });
                }
            }
            Sc::Voxels { label, cells } => {
                for c in chunk_removals(cells, 1) {
                    out.push(Sc::Voxels { label: label.clone(), cells: c });
                }
                let lo = cells.iter().fold([i32::MAX; 3], |a, c| [a[0].min(c[0]), a[1].min(c[1]), a[2].min(c[2])]);
                if lo != [0, 0, 0] {
                    out.push(Sc::Voxels { label: label.clone(), cells: cells.iter().map(|c| [c[0] - lo[0], c[1] - lo[1], c[2] - lo[2]]).collect() });
                }
            }
            Sc::Chains { label, branching, pairs } => {
                for c in chunk_removals(pairs, 1) {
                    out.push(Sc::Chains { label: label.clone(), branching: *branching, pairs: c });
                }
                // dense relabelling
                let labels: BTreeSet<u32> = pairs.iter().flat_map(|p| p.iter().copied()).collect();
                let map: BTreeMap<u32, u32> = labels.iter().enumerate().map(|(i, &l)| (l, i as u32)).collect();
                let dense: Vec<[u32; 2]> = pairs.iter().map(|p| [map[&p[0]], map[&p[1]]]).collect();
                if dense != *pairs {
                    out.push(Sc::Chains { label: label.clone(), branching: *branching, pairs: dense });
                }
            }
        }
        out
    }

    fn valid(&self, sc: &Sc) -> bool {
        match sc {
            Sc::Mesh { mesh, .. } => !mesh.f.is_empty() && mesh.in_domain() && mesh.has_distinct_positions(),
            Sc::Sparse { mesh, ids, n_vertices, .. } => !mesh.f.is_empty() && mesh.in_domain() && ids.len() == mesh.v.len() && ids.iter().all(|&i| (i as usize) < *n_vertices),
            Sc::History { mesh, steps, .. } => {
                !mesh.f.is_empty()
                    && mesh.in_domain()
                    && steps.iter().all(|s| match s {
                        Step::Append(o) => !o.f.is_empty() && o.in_domain(),
                        Step::AppendBuilt(o, _, _) => o.f.len() == 2 && o.v.len() == 4 && o.in_domain() && o.has_distinct_positions(),
                        Step::ForkAppend(a, b) => !a.f.is_empty() && a.in_domain() && !b.f.is_empty() && b.in_domain() && b.has_distinct_positions(),
                        _ => true,
                    })
                    && history_stage(mesh, steps, steps.len()).has_distinct_positions()
            }
            Sc::Big { kind, a, b } => match kind {
                BigKind::Fan => *a >= 3,
                BigKind::Grid => *a >= 1 && *b >= 1,
            },
            Sc::Box { w, h, d } => *w > 0.0 && *h > 0.0 && *d > 0.0,
            Sc::Cylinder { r, h, steps } => *r > 0.0 && *h > 0.0 && *steps >= 3,
            Sc::Voxels { cells, .. } => !cells.is_empty(),
            Sc::Chains { pairs, .. } => !pairs.is_empty(),
        }
    }

    fn fingerprints(&self, sc: &Sc, _v: &Violation) -> Vec<String> {
        let mut fp = Vec::new();
        match sc {
            Sc::Mesh { mesh, .. } => {
                if mesh.has_pinched_vertex() {
                    fp.push("mesh:pinched-vertex".into());
                }
                if mesh.has_repeated_directed_edge() {
                    fp.push("mesh:same-directed-edge-twice".into());
                }
                if !mesh.has_pinched_vertex() && !mesh.has_repeated_directed_edge() {
                    fp.push("mesh:manifold-consistent".into());
                }
            }
            Sc::Sparse { .. } => fp.push("mesh:huge-vertex-buffer".into()),
            Sc::History { .. } => fp.push("mesh:query-change-query".into()),
            Sc::Big { .. } => fp.push("mesh:large".into()),
            Sc::Box { .. } => fp.push("primitive:box".into()),
            Sc::Cylinder { .. } => fp.push("primitive:cylinder".into()),
            Sc::Voxels { .. } => fp.push("voxels".into()),
            Sc::Chains { branching, .. } => fp.push(if *branching { "chains:branching".into() } else { "chains:non-branching".into() }),
        }
        fp
    }

    fn nontrivial(&self, sc: &Sc) -> bool {
        match sc {
            Sc::Mesh { mesh, .. } => mesh.f.len() >= 2,
            Sc::Box { .. } | Sc::Cylinder { .. } => true,
            Sc::Sparse { mesh, .. } => mesh.f.len() >= 2,
            Sc::History { steps, .. } => !steps.is_empty(),
            Sc::Big { .. } => true,
            Sc::Voxels { cells, .. } => cells.len() >= 2,
            Sc::Chains { pairs, .. } => pairs.len() >= 2,
        }
    }

    fn rule(&self) -> String {
        "one case = (scenario, consumed decision vector). Scenarios are drawn from the run PRNG: small arbitrary face lists (3-8 vertices, 1-10 faces, no edge in more than two faces), structured meshes (grids with removed cells, disks, tubes, closed surfaces, unions on disjoint or single shared vertices, random face flips / renumbering / face order / triple rotation), library box and cylinder, voxel sets, index pair lists. Each scenario is executed under several decision vectors (one hash policy per container the code constructs; voxel sets also under the caller's own set order). Non-trivial = at least two faces / voxels / pairs and at least one decision consumed; distinct = distinct 128-bit digest of (scenario JSON, consumed decision list), counted with a BTreeSet.".into()
    }

    fn components(&self) -> serde_json::Value {
        json!({
            "real": ["engeom Mesh::new/calc_edges/get_patches/get_patch_boundary_points/create_box/create_cylinder/get_face_normals", "engeom raster3::clusters_from_sparse", "engeom common::indices::chained_indices", "parry3d TriMesh", "std hashbrown tables (with simulator-chosen hashers)"],
            "replaced_by_simulator": ["std RandomState keys (hash iteration order of every container)", "wall-clock (tick counter instead)"],
            "stubbed": []
        })
    }

    fn assumptions(&self) -> Vec<String> {
        vec![
            "hash orders are explored through a family of legal hashers (SipHash with chosen keys, identity, reverse, multiplicative, colliding), not all permutations".into(),
            "the tick budget 10000+200*n*min(n,64) is taken as the meaning of 'polynomial time' for n = |V|+|F|".into(),
            "seeded sampling: a clean batch is evidence, not proof".into(),
        ]
    }
}

fn abbreviate_chains(c: &[Vec<u32>]) -> String {
    let s = format!("{:?}", c);
    if s.len() > 240 {
        format!("{}…", &s[..240])
    } else {
        s
    }
}
