//! C14 — mesh face selection is set algebra over a per-face predicate.

use crate::c12::{budget, from_mesh, to_mesh};
use crate::core::*;
use crate::env::{OpResult, Sim, Swarm};
use crate::meshgen::*;
use crate::rng::{Digest, Rng};
use engeom::{Mesh, Point3, SelectOp, Selection, Vector3};
use serde::{Deserialize, Serialize};
use serde_json::json;
use std::collections::{BTreeMap, BTreeSet};

pub struct C14;

#[derive(Serialize, Deserialize, Clone, Debug, PartialEq)]
pub enum Start {
    None,
    All,
    Indices(Vec<usize>),
}

#[derive(Serialize, Deserialize, Clone, Copy, Debug, PartialEq)]
pub enum Mode {
    Add,
    Remove,
    Keep,
}

impl Mode {
    fn op(self) -> SelectOp {
        match self {
            Mode::Add => SelectOp::Add,
            Mode::Remove => SelectOp::Remove,
            Mode::Keep => SelectOp::Keep,
        }
    }
}

#[derive(Serialize, Deserialize, Clone, Debug, PartialEq)]
pub enum Crit {
    Facing { dir: [f64; 3], angle: f64 },
    Near { reference: usize, all: bool, dist: f64, planar: Option<f64>, angle: Option<f64> },
}

#[derive(Serialize, Deserialize, Clone, Debug, PartialEq)]
pub struct Op {
    pub crit: Crit,
    pub mode: Mode,
}

#[derive(Serialize, Deserialize, Clone, Debug)]
pub struct Sc {
    pub label: String,
    pub mesh: M,
    pub refs: Vec<M>,
    pub start: Start,
    pub ops: Vec<Op>,
    /// faces probed one at a time (singleton selection) for the independence oracle
    pub probe_faces: Vec<usize>,
    /// hand every reference mesh to the chain through one reused variable
    #[serde(default)]
    pub one_slot: bool,
    /// When present the subject mesh lives in a vertex buffer of `n_vertices` entries: explicit
    /// vertex `i` sits at buffer index `ids[i]`, every other slot is an unreferenced vertex.
    #[serde(default)]
    pub spread: Option<(Vec<u32>, usize)>,
}

/// The subject mesh as it is handed to the library.
fn subject(sc: &Sc) -> M {
    match &sc.spread {
        None => sc.mesh.clone(),
        Some((ids, n)) => {
            let c = sc.mesh.v[0];
            let mut v = vec![c; *n];
            for (i, &id) in ids.iter().enumerate() {
                v[id as usize] = sc.mesh.v[i];
            }
            let f = sc.mesh.f.iter().map(|f| [ids[f[0] as usize], ids[f[1] as usize], ids[f[2] as usize]]).collect();
            M { v, f }
        }
    }
}

pub struct Obs {
    pub construct: Option<String>,
    /// result of `collect()` after each prefix of the history (index 0 = start only)
    pub prefixes: Vec<OpResult<Vec<usize>>>,
    /// per op, per probed face: the code's own verdict on the face taken alone, by three routes:
    /// Keep on {f} keeps it, Remove on {f} removes it, Add from the empty selection adds it
    pub singles: Vec<Vec<OpResult<[bool; 3]>>>,
    pub created: Option<OpResult<M>>,
    pub created_direct: Option<OpResult<M>>,
}

fn selection(start: &Start) -> Selection {
    match start {
        Start::None => Selection::None,
        Start::All => Selection::All,
        Start::Indices(v) => Selection::Indices(v.clone()),
    }
}

/// Run a whole history the way a caller with a single `reference` variable would: before every
/// near-mesh step the reference mesh is moved into the same storage slot, so consecutive steps see
/// different meshes at the same address. The criterion may depend on the mesh, never on where it
/// is stored.
fn run_history_in_one_slot<'a>(mesh: &'a Mesh, start: &Start, ops: &[Op], refs: &[Mesh]) -> engeom::geom3::mesh::filtering::TriangleFilter<'a> {
    let mut f = mesh.face_select(selection(start));
    let mut slot: Mesh = refs[0].clone();
    for op in ops {
        match &op.crit {
            Crit::Facing { dir, angle } => f = f.facing(&Vector3::new(dir[0], dir[1], dir[2]), *angle, op.mode.op()),
            Crit::Near { reference, all, dist, planar, angle } => {
                slot = refs[*reference].clone();
                f = f.near_mesh(&slot, *all, *dist, *planar, *angle, op.mode.op());
            }
        }
    }
    f
}

fn apply<'a>(f: engeom::geom3::mesh::filtering::TriangleFilter<'a>, op: &Op, refs: &[&Mesh]) -> engeom::geom3::mesh::filtering::TriangleFilter<'a> {
    match &op.crit {
        Crit::Facing { dir, angle } => f.facing(&Vector3::new(dir[0], dir[1], dir[2]), *angle, op.mode.op()),
        Crit::Near { reference, all, dist, planar, angle } => f.near_mesh(refs[*reference], *all, *dist, *planar, *angle, op.mode.op()),
    }
}

// ---------------------------------------------------------------------------------------------
// generators

fn gen_mesh(rng: &mut Rng, tier: Tier) -> (String, M) {
    let big = tier == Tier::Thorough && rng.chance(0.3);
    match rng.below(6) {
        0 => ("box".into(), cuboid(rng.uniform(0.5, 2.0), rng.uniform(0.5, 2.0), rng.uniform(0.5, 2.0))),
        1 => {
            let around = 4 + rng.below(if big { 40 } else { 12 });
            let along = 1 + rng.below(if big { 6 } else { 3 });
            ("tube".into(), tube(around, along, rng.uniform(0.5, 2.0), rng.uniform(0.5, 3.0)))
        }
        2 => {
            let nx = 2 + rng.below(if big { 14 } else { 5 });
            let ny = 2 + rng.below(if big { 14 } else { 5 });
            let cell = rng_cell(rng);
            let mut m = grid(rng, nx, ny, cell, 0.2, &|_, _| true);
            // height field so that neighbouring faces have different normals
            let (a, b) = (rng.uniform(0.3, 2.0), rng.uniform(0.0, 0.6));
            for p in m.v.iter_mut() {
                p[2] = b * ((p[0] * a).sin() + (p[1] * a * 0.7).cos());
            }
            ("height-field".into(), m)
        }
        3 => {
            let mut m = octahedron();
            let levels = if big { 2 + rng.below(2) } else { rng.below(3) };
            for _ in 0..levels {
                m = subdivide(&m, true);
            }
            ("sphere".into(), m)
        }
        4 => {
            let mut m = cuboid(1.0, 1.0, 1.0);
            for _ in 0..rng.below(if big { 3 } else { 2 }) {
                m = subdivide(&m, false);
            }
            ("subdivided-box".into(), m)
        }
        _ => {
            // open random surface: a disk-like grid with cells removed
            let nx = 2 + rng.below(6);
            let ny = 2 + rng.below(6);
            let cells = random_cells(rng, nx, ny, 0.8);
            let mut m = grid(rng, nx, ny, 1.0, 0.25, &|i, j| cells.contains(&(i, j))).compact();
            for p in m.v.iter_mut() {
                p[2] = 0.3 * (p[0] * 1.3).sin() * (p[1] * 0.9).cos();
            }
            ("holed-surface".into(), m)
        }
    }
}

fn rng_cell(rng: &mut Rng) -> f64 {
    rng.uniform(0.3, 1.0)
}

fn nondegenerate(m: &M) -> bool {
    let s = m.size();
    (0..m.f.len()).all(|i| m.area(i) > 1e-9 * s * s)
}

fn gen_reference(rng: &mut Rng, mesh: &M) -> M {
    let size = mesh.size();
    match rng.below(4) {
        0 => {
            // offset copy of a subset of faces, each face moved along its own normal
            let keep: Vec<usize> = (0..mesh.f.len()).filter(|_| rng.chance(0.4)).collect();
            let keep = if keep.is_empty() { vec![rng.below(mesh.f.len())] } else { keep };
            // (now and then exactly in place: the rest of the subject then lies exactly in the
            // planes of the copied faces, beside them)
            let off = if rng.chance(0.25) { 0.0 } else { rng.uniform(-0.05, 0.05) * size };
            let mut v = Vec::new();
            let mut f = Vec::new();
            for &i in &keep {
                let t = mesh.tri(i);
                let n = mesh.normal(i).unwrap_or([0.0, 0.0, 1.0]);
                let base = v.len() as u32;
                for p in t {
                    v.push(add(p, scale(n, off)));
                }
                f.push([base, base + 1, base + 2]);
            }
            M { v, f }
        }
        1 => {
            // a large plane through / above the mesh
            let mut c = [0.0; 3];
            for p in &mesh.v {
                c = add(c, *p);
            }
            c = scale(c, 1.0 / mesh.v.len() as f64);
            let n = unit([rng.normal(), rng.normal(), rng.normal() + 0.1]);
            let u = unit(cross(n, if n[0].abs() < 0.9 { [1.0, 0.0, 0.0] } else { [0.0, 1.0, 0.0] }));
            let w = cross(n, u);
            let o = add(c, scale(n, rng.uniform(-0.5, 0.5) * size));
            let r = size * rng.uniform(0.4, 2.0);
            let p = |a: f64, b: f64| add(o, add(scale(u, a * r), scale(w, b * r)));
            M { v: vec![p(-1.0, -1.0), p(1.0, -1.0), p(1.0, 1.0), p(-1.0, 1.0)], f: vec![[0, 1, 2], [0, 2, 3]] }
        }
        2 => {
            // slightly rotated and shifted copy of the whole mesh
            let mut pose = Pose::random(rng, 0.05 * size);
            if rng.chance(0.7) {
                // small rotation: blend towards identity by using a small-angle rotation about z
                let a = rng.uniform(-0.2, 0.2);
                pose.r = [[a.cos(), -a.sin(), 0.0], [a.sin(), a.cos(), 0.0], [0.0, 0.0, 1.0]];
            }
            pose.apply_mesh(mesh)
        }
        _ => {
            // the top of the bounding box (like the unit-box example of the defect report)
            let mut lo = [f64::INFINITY; 3];
            let mut hi = [f64::NEG_INFINITY; 3];
            for p in &mesh.v {
                for k in 0..3 {
                    lo[k] = lo[k].min(p[k]);
                    hi[k] = hi[k].max(p[k]);
                }
            }
            let z = hi[2] + rng.uniform(0.0, 0.1) * size;
            let e = 0.2 * size;
            M {
                v: vec![[lo[0] - e, lo[1] - e, z], [hi[0] + e, lo[1] - e, z], [hi[0] + e, hi[1] + e, z], [lo[0] - e, hi[1] + e, z]],
                f: vec![[0, 1, 2], [0, 2, 3]],
            }
        }
    }
}

/// More than 2^16 faces selected at once: a stepped grid (half of it at z = 0, half lifted), one
/// reference plane under the low half, a single near-mesh step from the full selection.
fn gen_large_selection(rng: &mut Rng) -> Sc {
    let nx = 182 + rng.below(30);
    let ny = 181 + rng.below(30);
    let mut mesh = crate::c12::big_mesh(crate::c12::BigKind::Grid, nx, ny);
    for p in mesh.v.iter_mut() {
        p[2] = if p[0] > nx as f64 / 2.0 { 10.0 } else { 0.0 };
    }
    let e = 5.0;
    let plane = M {
        v: vec![[-e, -e, -0.05], [nx as f64 + e, -e, -0.05], [nx as f64 + e, ny as f64 + e, -0.05], [-e, ny as f64 + e, -0.05]],
        f: vec![[0, 1, 2], [0, 2, 3]],
    };
    let mode = *rng.pick(&[Mode::Keep, Mode::Keep, Mode::Remove, Mode::Add]);
    let start = if mode == Mode::Add { Start::None } else { Start::All };
    Sc {
        label: "more-than-65536-faces-selected".into(),
        mesh,
        refs: vec![plane],
        start,
        ops: vec![Op { crit: Crit::Near { reference: 0, all: rng.chance(0.5), dist: 0.5, planar: None, angle: None }, mode }],
        probe_faces: vec![],
        one_slot: false,
        spread: None,
    }
}

fn gen_crit(rng: &mut Rng, mesh: &M, nrefs: usize) -> Crit {
    let size = mesh.size();
    if rng.chance(0.35) {
        let like_a_face = rng.chance(0.25);
        let dir = if like_a_face {
            // "facing the way that face does": the normal of one of the faces (or its opposite)
            let n = mesh.normal(rng.below(mesh.f.len())).unwrap_or([0.0, 0.0, 1.0]);
            if rng.chance(0.8) { n } else { scale(n, -1.0) }
        } else if rng.chance(0.5) {
            *rng.pick(&[[0.0, 0.0, 1.0], [0.0, 0.0, -1.0], [1.0, 0.0, 0.0], [0.0, 1.0, 0.0]])
        } else {
            scale(unit([rng.normal(), rng.normal(), rng.normal() + 1e-3]), rng.uniform(0.5, 3.0))
        };
        // mostly thresholds that split the faces, sometimes the extremes (nothing / everything)
        let angle = match rng.below(14) {
            0 => 0.0,
            1 => 4.0,
            2 => std::f64::consts::PI,
            3 => std::f64::consts::FRAC_PI_2,
            _ if like_a_face && rng.chance(0.6) => rng.uniform(0.01, 0.4),
            _ => rng.uniform(0.2, 2.9),
        };
        Crit::Facing { dir, angle }
    } else {
        Crit::Near {
            reference: rng.below(nrefs),
            all: rng.chance(0.5),
            dist: match rng.below(12) {
                0 => 0.0,
                1 => size * 100.0,
                _ => size * rng.log_uniform(0.01, 0.6),
            },
            planar: if rng.chance(0.4) { Some(if rng.chance(0.1) { 0.0 } else { size * rng.log_uniform(0.001, 0.3) }) } else { None },
            angle: if rng.chance(0.6) { Some(match rng.below(14) { 0 => 0.0, 1 => 4.0, 2 => std::f64::consts::FRAC_PI_2, 3 => std::f64::consts::PI, _ => rng.uniform(0.1, 3.0) }) } else { None },
        }
    }
}

// ---------------------------------------------------------------------------------------------
// reference model (three-valued)

#[derive(Clone, Copy, PartialEq, Eq, Debug)]
enum Tri {
    Yes,
    No,
    Unknown,
}

fn tri_and(a: Tri, b: Tri) -> Tri {
    match (a, b) {
        (Tri::No, _) | (_, Tri::No) => Tri::No,
        (Tri::Yes, Tri::Yes) => Tri::Yes,
        _ => Tri::Unknown,
    }
}
fn tri_or(a: Tri, b: Tri) -> Tri {
    match (a, b) {
        (Tri::Yes, _) | (_, Tri::Yes) => Tri::Yes,
        (Tri::No, Tri::No) => Tri::No,
        _ => Tri::Unknown,
    }
}
fn tri_not(a: Tri) -> Tri {
    match a {
        Tri::Yes => Tri::No,
        Tri::No => Tri::Yes,
        Tri::Unknown => Tri::Unknown,
    }
}

/// `value < limit` (or `<=`: the band makes them the same) with an absolute tie band.
fn below(value: f64, limit: f64, band: f64) -> Tri {
    if !value.is_finite() {
        return Tri::Unknown;
    }
    if (value - limit).abs() <= band {
        Tri::Unknown
    } else if value < limit {
        Tri::Yes
    } else {
        Tri::No
    }
}

/// acos is ill-conditioned at 0 and pi: a rounding error of one ulp in the cosine of two nearly
/// parallel normals is 1.5e-8 in the angle, so angles within 1e-7 of a threshold are not judged.
const ANGLE_BAND: f64 = 1e-7;

fn angle_between(a: [f64; 3], b: [f64; 3]) -> f64 {
    let c = dot(a, b) / (norm(a) * norm(b));
    c.clamp(-1.0, 1.0).acos()
}

struct Model<'a> {
    mesh: &'a M,
    refs_m: &'a [M],
    refs: &'a [Mesh],
    size: f64,
}

impl Model<'_> {
    /// The documented criterion, recomputed for one face with no memo and no other face involved.
    fn pred(&self, face: usize, crit: &Crit) -> Tri {
        // a face without a usable normal is outside what the documented criterion defines
        let ft = self.mesh.tri(face);
        let (fe1, fe2) = (sub(ft[1], ft[0]), sub(ft[2], ft[0]));
        if norm(cross(fe1, fe2)) <= 1e-9 * norm(fe1) * norm(fe2) {
            return Tri::Unknown;
        }
        let n = match self.mesh.normal(face) {
            Some(n) => n,
            None => return Tri::Unknown,
        };
        match crit {
            Crit::Facing { dir, angle } => below(angle_between(n, *dir), *angle, ANGLE_BAND),
            Crit::Near { reference, all, dist, planar, angle } => {
                let rm = &self.refs[*reference];
                let rmm = &self.refs_m[*reference];
                let band = 1e-9 * self.size.max(rmm.size());
                let mut acc = if *all { Tri::Yes } else { Tri::No };
                for k in 0..3 {
                    let p = self.mesh.v[self.mesh.f[face][k] as usize];
                    let pp = Point3::new(p[0], p[1], p[2]);
                    let closest = rm.point_closest_to(&pp);
                    let d = dist3(p, [closest.x, closest.y, closest.z]);
                    let mut ok = below(d, *dist, band);
                    if ok != Tri::No && (planar.is_some() || angle.is_some()) {
                        // the projection primitive is trusted for *which* triangle is hit
                        match rm.project_with_max_dist(&pp, *dist) {
                            Some((prj, ri, _)) => {
                                // a reference triangle without a usable normal (parry: cross
                                // product below f64::EPSILON; here: thinner than 1e-9 of its
                                // edges) is outside what the documented criterion defines
                                let rt = rmm.tri(ri as usize);
                                let (e1, e2) = (sub(rt[1], rt[0]), sub(rt[2], rt[0]));
                                if norm(cross(e1, e2)) <= 1e-9 * norm(e1) * norm(e2) {
                                    return Tri::Unknown;
                                }
                                let rn = match rmm.normal(ri as usize) {
                                    Some(rn) => rn,
                                    None => return Tri::Unknown,
                                };
                                if let Some(pt) = planar {
                                    let dvec = sub(p, [prj.point.x, prj.point.y, prj.point.z]);
                                    let along = dot(dvec, rn);
                                    let in_plane = norm(sub(dvec, scale(rn, along)));
                                    ok = tri_and(ok, below(in_plane, *pt, band));
                                }
                                if let Some(at) = angle {
                                    ok = tri_and(ok, below(angle_between(n, rn), *at, ANGLE_BAND));
                                }
                            }
                            None => {
                                if ok == Tri::Yes {
                                    // the primitive disagrees with the closest-point distance:
                                    // not ours to judge
                                    ok = Tri::Unknown;
                                }
                            }
                        }
                    }
                    acc = if *all { tri_and(acc, ok) } else { tri_or(acc, ok) };
                }
                acc
            }
        }
    }
}

/// Three-valued set: faces definitely in, faces whose membership is undetermined.
#[derive(Clone, Debug, Default)]
struct TSet {
    yes: BTreeSet<usize>,
    unknown: BTreeSet<usize>,
}

fn step(s: &TSet, nfaces: usize, mode: Mode, pred: &dyn Fn(usize) -> Tri) -> TSet {
    let mut out = TSet::default();
    for f in 0..nfaces {
        let cur = if s.yes.contains(&f) {
            Tri::Yes
        } else if s.unknown.contains(&f) {
            Tri::Unknown
        } else {
            Tri::No
        };
        // lazily evaluated: Add asks only about unselected faces, Remove/Keep about selected
        let next = match mode {
            Mode::Add => {
                if cur == Tri::Yes {
                    Tri::Yes
                } else {
                    tri_or(cur, pred(f))
                }
            }
            Mode::Remove => {
                if cur == Tri::No {
                    Tri::No
                } else {
                    tri_and(cur, tri_not(pred(f)))
                }
            }
            Mode::Keep => {
                if cur == Tri::No {
                    Tri::No
                } else {
                    tri_and(cur, pred(f))
                }
            }
        };
        match next {
            Tri::Yes => {
                out.yes.insert(f);
            }
            Tri::Unknown => {
                out.unknown.insert(f);
            }
            Tri::No => {}
        }
    }
    out
}

impl Property for C14 {
    type Scenario = Sc;
    type Obs = Obs;

    fn id(&self) -> &'static str {
        "C14"
    }

    fn runs(&self, tier: Tier) -> u64 {
        match tier {
            Tier::Quick => 150_000,
            Tier::Thorough => 1_500_000,
        }
    }

    fn generate(&self, rng: &mut Rng, tier: Tier) -> Sc {
        if rng.chance(if tier == Tier::Quick { 0.00008 } else { 0.00003 }) {
            return gen_large_selection(rng);
        }
        let (label, mut mesh) = loop {
            let (l, m) = gen_mesh(rng, tier);
            if nondegenerate(&m) && m.has_distinct_positions() {
                break (l, m);
            }
        };
        if rng.chance(0.5) {
            let pose = Pose::random(rng, 5.0);
            mesh = pose.apply_mesh(&mesh);
        }
        let mut label = label;
        // now and then one zero-area face (two existing vertices and the midpoint between them):
        // it has no normal, the model says nothing about it, the code must still treat it the same
        // way in every mode and in every context
        if rng.chance(0.1) {
            let f = mesh.f[rng.below(mesh.f.len())];
            let (a, b) = (mesh.v[f[0] as usize], mesh.v[f[1] as usize]);
            mesh.v.push(scale(add(a, b), 0.5));
            let m = (mesh.v.len() - 1) as u32;
            mesh.f.push([f[0], m, f[1]]);
            label.push_str("+zero-area-face");
        }
        // an exactly repeated face (same three indices in the same order) is two faces
        if rng.chance(0.1) {
            let f = mesh.f[rng.below(mesh.f.len())];
            mesh.f.push(f);
            label.push_str("+repeated-face");
        }
        // vertices no face refers to are legal; after renumbering they sit anywhere in the buffer
        let mut extra = 0;
        if rng.chance(0.3) {
            let (mut lo, mut hi) = ([f64::INFINITY; 3], [f64::NEG_INFINITY; 3]);
            for p in &mesh.v {
                for k in 0..3 {
                    lo[k] = lo[k].min(p[k]);
                    hi[k] = hi[k].max(p[k]);
                }
            }
            extra = 1 + rng.below(4);
            for _ in 0..extra {
                mesh.v.push([rng.uniform(lo[0], hi[0]), rng.uniform(lo[1], hi[1]), rng.uniform(lo[2], hi[2])]);
            }
            label.push_str("+unreferenced-vertices");
        }
        if rng.chance(0.5) || extra > 0 {
            renumber_vertices(rng, &mut mesh);
            shuffle_faces(rng, &mut mesh);
        }
        // the length unit is arbitrary
        if rng.chance(0.3) {
            let s = rng.log_uniform(1e-5, 1e4);
            for p in mesh.v.iter_mut() {
                *p = scale(*p, s);
            }
            label.push_str("+scaled");
        }
        let nrefs = 1 + rng.below(2);
        let mut refs = Vec::new();
        if rng.chance(0.1) {
            // the mesh compared with itself: every vertex projects at distance zero
            refs.push(mesh.compact());
            label.push_str(if rng.chance(0.5) { "+self-reference-same-object" } else { "+self-reference" });
        }
        while refs.len() < nrefs {
            let mut r = gen_reference(rng, &mesh);
            if nondegenerate(&r) {
                // sometimes the reference carries a zero-area sliver right next to a vertex of the
                // subject mesh (tessellator output): the closest feature for that vertex then has no
                // normal, and what the criterion says there must still not depend on other faces
                if rng.chance(0.25) {
                    let p = *rng.pick(&mesh.v);
                    let s = mesh.size();
                    let d = unit([rng.normal(), rng.normal(), rng.normal() + 1e-3]);
                    let o = add(p, scale(unit([rng.normal(), rng.normal(), rng.normal() + 1e-3]), rng.uniform(0.0, 0.01) * s));
                    let b = r.v.len() as u32;
                    r.v.push(add(o, scale(d, -0.02 * s)));
                    r.v.push(o);
                    r.v.push(add(o, scale(d, 0.03 * s)));
                    r.f.push([b, b + 1, b + 2]);
                    label.push_str("+sliver-in-reference");
                }
                refs.push(r);
            }
        }
        // sometimes the second reference is a twin of the first: same vertex and face counts, same
        // bounding box, different surface (every face re-wound, or one vertex moved inside the box)
        if refs.len() >= 2 && rng.chance(0.3) {
            let mut twin = refs[0].clone();
            if rng.chance(0.5) {
                for f in twin.f.iter_mut() {
                    f.swap(1, 2);
                }
            } else if twin.v.len() > 4 {
                let (mut lo, mut hi) = ([f64::INFINITY; 3], [f64::NEG_INFINITY; 3]);
                for p in &twin.v {
                    for k in 0..3 {
                        lo[k] = lo[k].min(p[k]);
                        hi[k] = hi[k].max(p[k]);
                    }
                }
                // move a vertex that is not extreme in any coordinate, staying inside the box
                if let Some(i) = (0..twin.v.len()).find(|&i| (0..3).all(|k| twin.v[i][k] > lo[k] && twin.v[i][k] < hi[k])) {
                    for k in 0..3 {
                        twin.v[i][k] = rng.uniform(lo[k], hi[k]);
                    }
                }
            }
            if nondegenerate(&twin) {
                let last = refs.len() - 1;
                refs[last] = twin;
                label.push_str("+twin-reference");
            }
        }
        let nf = mesh.f.len();
        let start = match rng.below(4) {
            0 => Start::None,
            1 => Start::All,
            _ => {
                let p = rng.uniform(0.1, 0.9);
                let mut v: Vec<usize> = (0..nf).filter(|_| rng.chance(p)).collect();
                if rng.chance(0.3) && !v.is_empty() {
                    // repeats are legal: the selection is a set
                    let extra = v[rng.below(v.len())];
                    v.push(extra);
                }
                rng.shuffle(&mut v);
                Start::Indices(v)
            }
        };
        let nops = 1 + rng.below(if tier == Tier::Quick { 4 } else { 6 });
        let nrefs = refs.len();
        let mut ops: Vec<Op> = (0..nops)
            .map(|_| Op { crit: gen_crit(rng, &mesh, nrefs), mode: *rng.pick(&[Mode::Add, Mode::Remove, Mode::Keep]) })
            .collect();
        // sometimes consecutive near-mesh steps use the same tolerances on different references
        if rng.chance(0.3) {
            let mut last: Option<(f64, Option<f64>)> = None;
            for op in ops.iter_mut() {
                if let Crit::Near { dist, planar, .. } = &mut op.crit {
                    match last {
                        Some((d0, p0)) => {
                            *dist = d0;
                            *planar = p0;
                        }
                        None => last = Some((*dist, *planar)),
                    }
                }
            }
        }
        // set algebra has laws about repeated criteria (idempotence, absorption): now and then
        // later steps repeat the criterion of an earlier step, under the same or another mode
        if rng.chance(0.4) {
            for _ in 0..rng.below(3) {
                ops.push(Op { crit: gen_crit(rng, &mesh, nrefs), mode: *rng.pick(&[Mode::Add, Mode::Add, Mode::Remove, Mode::Keep]) });
            }
            for _ in 0..1 + rng.below(3) {
                let src = rng.below(ops.len());
                let crit = ops[src].crit.clone();
                let mode = if rng.chance(0.6) { ops[src].mode } else { *rng.pick(&[Mode::Add, Mode::Remove, Mode::Keep]) };
                ops.push(Op { crit, mode });
            }
            label.push_str("+repeated-criteria");
        }
        let one_slot = rng.chance(0.4);
        let nprobe = rng.below(9).min(nf);
        let mut probe_faces: Vec<usize> = (0..nprobe).map(|_| rng.below(nf)).collect();
        probe_faces.sort();
        probe_faces.dedup();
        // now and then the mesh sits in a vertex buffer of more than 2^20 entries, some of its
        // vertices in the lowest and some in the highest slots
        let spread = if rng.chance(if tier == Tier::Quick { 0.0003 } else { 0.0001 }) && mesh.v.len() <= 200 {
            let n = (1usize << 20) + 1 + rng.below(64);
            let mut set = std::collections::BTreeSet::new();
            while set.len() < mesh.v.len() {
                // (the three groups below hold fewer than 200 distinct slots between them: anywhere
                // once most of them are taken)
                let id = match if set.len() >= 120 { 3 } else { rng.below(3) } {
                    3 => rng.below(n),
                    0 => rng.below(64),
                    1 => n - 1 - rng.below(64),
                    _ => {
                        // congruent to a low slot modulo 2^20, 2^16 ...
                        let base = rng.below(64);
                        (base + (1usize << *rng.pick(&[16u32, 20]))).min(n - 1)
                    }
                };
                set.insert(id as u32);
            }
            let mut ids: Vec<u32> = set.into_iter().collect();
            rng.shuffle(&mut ids);
            label.push_str("+huge-vertex-buffer");
            Some((ids, n))
        } else {
            None
        };
        Sc { label, mesh, refs, start, ops, probe_faces, one_slot, spread }
    }

    fn swarm(&self, rng: &mut Rng, sc: &Sc) -> Swarm {
        let mut w = *rng.pick(&[[4u32, 1, 1, 1, 0], [1, 1, 1, 1, 0], [1, 0, 0, 0, 0], [0, 1, 1, 1, 0]]);
        if sc.mesh.f.len() <= 48 && rng.chance(0.4) {
            w[4] = 1;
        }
        Swarm { order_weights: w, fault_rate: 0.0, boundary_bits: Vec::new() }
    }

    fn vectors(&self, rng: &mut Rng, tier: Tier, sc: &Sc) -> usize {
        if sc.mesh.f.len() > 20_000 {
            return 1;
        }
        match tier {
            Tier::Quick => 3 + rng.below(3),
            Tier::Thorough => 4 + rng.below(13),
        }
    }

    fn execute(&self, sc: &Sc, sim: &Sim) -> Obs {
        let subj = subject(sc);
        let built = sim.op("Mesh::new", 10_000_000, || {
            (to_mesh(&subj), sc.refs.iter().map(to_mesh).collect::<Vec<Mesh>>())
        });
        let (mesh, refs) = match built {
            OpResult::Done(x) => x,
            OpResult::Panic(m) => return Obs { construct: Some(m), prefixes: vec![], singles: vec![], created: None, created_direct: None },
            OpResult::Budget(_) => return Obs { construct: Some("budget".into()), prefixes: vec![], singles: vec![], created: None, created_direct: None },
        };
        // "the mesh compared with itself" may be meant literally: the subject handed over as its
        // own reference, the same object and not a copy
        let same_object = sc.label.contains("+self-reference-same-object");
        let ref_list: Vec<&Mesh> = refs.iter().enumerate().map(|(i, r)| if same_object && i == 0 { &mesh } else { r }).collect();
        let n = sc.mesh.v.len() + sc.mesh.f.len();
        let b = budget(n) * (1 + sc.ops.len() as u64);
        let mut prefixes = Vec::new();
        for k in 0..=sc.ops.len() {
            prefixes.push(sim.op("face_select..collect", b, || {
                if sc.one_slot {
                    run_history_in_one_slot(&mesh, &sc.start, &sc.ops[..k], &refs).collect()
                } else {
                    let mut f = mesh.face_select(selection(&sc.start));
                    for op in &sc.ops[..k] {
                        f = apply(f, op, &ref_list);
                    }
                    f.collect()
                }
            }));
        }
        let mut singles = Vec::new();
        for op in &sc.ops {
            let mut row = Vec::new();
            for &face in &sc.probe_faces {
                row.push(sim.op("face_select(single)..collect", b, || {
                    let keep = Op { crit: op.crit.clone(), mode: Mode::Keep };
                    let kept = apply(mesh.face_select(Selection::Indices(vec![face])), &keep, &ref_list).collect() == vec![face];
                    let remove = Op { crit: op.crit.clone(), mode: Mode::Remove };
                    let removed = apply(mesh.face_select(Selection::Indices(vec![face])), &remove, &ref_list).collect().is_empty();
                    let add = Op { crit: op.crit.clone(), mode: Mode::Add };
                    let added = apply(mesh.face_select(Selection::None), &add, &ref_list).collect().contains(&face);
                    [kept, removed, added]
                }));
            }
            singles.push(row);
        }
        let final_nonempty = prefixes.last().and_then(|p| p.done()).is_some_and(|s| !s.is_empty());
        let (created, created_direct) = if final_nonempty {
            let c = sim.op("face_select..create_mesh", b, || {
                let mut f = mesh.face_select(selection(&sc.start));
                for op in &sc.ops {
                    f = apply(f, op, &ref_list);
                }
                from_mesh(&f.create_mesh())
            });
            let mut sorted: Vec<usize> = prefixes.last().unwrap().done().unwrap().clone();
            sorted.sort();
            sorted.dedup();
            let d = sim.op("Mesh::create_from_indices", b, || from_mesh(&mesh.create_from_indices(&sorted)));
            (Some(c), Some(d))
        } else {
            (None, None)
        };
        Obs { construct: None, prefixes, singles, created, created_direct }
    }

    fn judge(&self, sc: &Sc, runs: &[VectorRun<Obs>], stats: &mut Stats) -> Vec<Violation> {
        let mut out = Vec::new();
        let nf = sc.mesh.f.len();
        // model (independent of the decision vector): needs real meshes for the trusted primitive
        let refs: Vec<Mesh> = sc.refs.iter().map(to_mesh).collect();
        let model = Model { mesh: &sc.mesh, refs_m: &sc.refs, refs: &refs, size: sc.mesh.size() };
        let mut sets: Vec<TSet> = Vec::new();
        let mut s0 = TSet::default();
        match &sc.start {
            Start::None => {}
            Start::All => s0.yes = (0..nf).collect(),
            Start::Indices(v) => s0.yes = v.iter().copied().collect(),
        }
        sets.push(s0);
        let mut preds: Vec<BTreeMap<usize, Tri>> = Vec::new();
        for op in &sc.ops {
            let cache: std::cell::RefCell<BTreeMap<usize, Tri>> = Default::default();
            let next = step(sets.last().unwrap(), nf, op.mode, &|f| {
                *cache.borrow_mut().entry(f).or_insert_with(|| model.pred(f, &op.crit))
            });
            sets.push(next);
            // the probed faces need a verdict too
            for &f in &sc.probe_faces {
                cache.borrow_mut().entry(f).or_insert_with(|| model.pred(f, &op.crit));
            }
            preds.push(cache.into_inner());
        }
        // probes
        if sc.spread.is_some() {
            stats.bump("probe:vertex-buffer-beyond-2^20");
        }
        if sc.mesh.f.len() > 65_536 {
            stats.bump("probe:more-than-65536-faces-in-one-step");
        }
        if sc.ops.iter().any(|o| matches!(o.crit, Crit::Near { angle: Some(_), .. })) {
            stats.bump("probe:near-with-angle-tol");
        }
        if sc.ops.iter().any(|o| matches!((&o.crit, o.mode), (Crit::Near { .. }, Mode::Keep | Mode::Remove))) {
            stats.bump("probe:near-with-keep-or-remove");
        }
        let und: usize = sets.iter().map(|s| s.unknown.len()).sum();
        stats.add("undetermined:face-memberships", und as u64);
        let balanced = preds.iter().filter(|p| {
            let y = p.values().filter(|&&t| t == Tri::Yes).count();
            let n = p.values().filter(|&&t| t == Tri::No).count();
            y > 0 && n > 0
        }).count();
        stats.add("ops:predicate-splits-faces", balanced as u64);
        stats.add("ops:total", sc.ops.len() as u64);

        let mut first_ok: Option<(usize, Vec<BTreeSet<usize>>)> = None;
        for (vi, r) in runs.iter().enumerate() {
            let o = &r.obs;
            if let Some(m) = &o.construct {
                out.push(Violation::new("panic", "Mesh::new", m.clone(), &[vi]));
                continue;
            }
            let mut observed: Vec<BTreeSet<usize>> = Vec::new();
            let mut complete = true;
            for (k, p) in o.prefixes.iter().enumerate() {
                let opname = if k == 0 { "Mesh::face_select".to_string() } else { op_name(&sc.ops[k - 1]) };
                match p {
                    OpResult::Budget(b) => {
                        out.push(Violation::new("step-budget", &opname, format!("prefix of {} ops did not finish within {} ticks", k, b), &[vi]));
                        complete = false;
                        break;
                    }
                    OpResult::Panic(m) => {
                        out.push(Violation::new("panic", &opname, m.clone(), &[vi]));
                        complete = false;
                        break;
                    }
                    OpResult::Done(list) => {
                        let set: BTreeSet<usize> = list.iter().copied().collect();
                        if set.len() != list.len() {
                            out.push(Violation::new("selection-mismatch", &opname, format!("collect() returned a face twice after {} ops", k), &[vi]));
                        }
                        let m = &sets[k];
                        let wrong_in = set.iter().find(|f| !m.yes.contains(f) && !m.unknown.contains(f));
                        let wrong_out = m.yes.iter().find(|f| !set.contains(f));
                        if let Some(f) = wrong_in {
                            out.push(Violation::new("selection-mismatch", &opname, format!("after {} ops face {} is selected but the set model says it is not ({} selected, model {} definite)", k, f, set.len(), m.yes.len()), &[vi]));
                            observed.push(set);
                            break;
                        }
                        if let Some(f) = wrong_out {
                            out.push(Violation::new("selection-mismatch", &opname, format!("after {} ops face {} is not selected but the set model says it is ({} selected, model {} definite)", k, f, set.len(), m.yes.len()), &[vi]));
                            observed.push(set);
                            break;
                        }
                        observed.push(set);
                    }
                }
            }
            // independence: the code's own verdict on a face taken alone vs inside the history
            for (k, row) in o.singles.iter().enumerate() {
                let opname = op_name(&sc.ops[k]);
                if observed.len() <= k + 1 {
                    break;
                }
                for (pi, res) in row.iter().enumerate() {
                    let f = sc.probe_faces[pi];
                    let alone = match res {
                        OpResult::Done(b) => {
                            if b[0] != b[1] || b[0] != b[2] {
                                out.push(Violation::new(
                                    "modes-disagree-on-a-face",
                                    &opname,
                                    format!("face {} taken alone: Keep says the criterion is {}, Remove says {}, Add says {}", f, b[0], b[1], b[2]),
                                    &[vi],
                                ));
                            }
                            b[0]
                        }
                        OpResult::Panic(m) => {
                            out.push(Violation::new("panic", &opname, format!("singleton selection of face {}: {}", f, m), &[vi]));
                            continue;
                        }
                        OpResult::Budget(_) => {
                            out.push(Violation::new("step-budget", &opname, format!("singleton selection of face {}", f), &[vi]));
                            continue;
                        }
                    };
                    stats.bump("independence:singleton-probes");
                    // against the model
                    match preds[k].get(&f) {
                        Some(Tri::Yes) if !alone => out.push(Violation::new("selection-mismatch", &opname, format!("face {} alone fails the criterion but satisfies the documented predicate", f), &[vi])),
                        Some(Tri::No) if alone => out.push(Violation::new("selection-mismatch", &opname, format!("face {} alone passes the criterion but does not satisfy the documented predicate", f), &[vi])),
                        _ => {}
                    }
                    // against the history
                    let before = observed[k].contains(&f);
                    let after = observed[k + 1].contains(&f);
                    let in_history = match sc.ops[k].mode {
                        Mode::Add if !before => Some(after),
                        Mode::Remove if before => Some(!after),
                        Mode::Keep if before => Some(after),
                        _ => None,
                    };
                    if let Some(h) = in_history {
                        stats.bump("independence:compared-with-history");
                        if h != alone {
                            out.push(Violation::new(
                                "face-verdict-depends-on-context",
                                &opname,
                                format!("face {} {} the criterion when selected alone but {} it inside the selection of {} faces", f, if alone { "passes" } else { "fails" }, if h { "passes" } else { "fails" }, observed[k].len()),
                                &[vi],
                            ));
                        }
                    }
                }
            }
            // built meshes
            if complete && observed.len() == sc.ops.len() + 1 {
                let sel = observed.last().unwrap();
                for (name, c) in [("TriangleFilter::create_mesh", &o.created), ("Mesh::create_from_indices", &o.created_direct)] {
                    match c {
                        None => {}
                        Some(OpResult::Budget(b)) => out.push(Violation::new("step-budget", name, format!("did not finish within {} ticks", b), &[vi])),
                        Some(OpResult::Panic(m)) => out.push(Violation::new("panic", name, m.clone(), &[vi])),
                        Some(OpResult::Done(nm)) => {
                            stats.bump("created-mesh:checked");
                            if let Some(msg) = check_created(&sc.mesh, sel, nm) {
                                out.push(Violation::new("created-mesh-mismatch", name, msg, &[vi]));
                            }
                        }
                    }
                }
                match &first_ok {
                    None => first_ok = Some((vi, observed.clone())),
                    Some((v0, obs0)) => {
                        if let Some(k) = (0..obs0.len()).find(|&k| obs0[k] != observed[k]) {
                            stats.bump("probe:selection-differs-between-orders");
                            let opname = if k == 0 { "Mesh::face_select".to_string() } else { op_name(&sc.ops[k - 1]) };
                            out.push(Violation::new(
                                "order-dependent-selection",
                                &opname,
                                format!("after {} ops decision vectors {} and {} select different faces ({} vs {})", k, v0, vi, obs0[k].len(), observed[k].len()),
                                &[*v0, vi],
                            ));
                        }
                    }
                }
            }
        }
        out
    }

    fn raw_digest(&self, obs: &Obs) -> Digest {
        let mut d = Digest::new();
        for p in &obs.prefixes {
            match p.done() {
                Some(l) => {
                    d.u64(l.len() as u64);
                    for &x in l {
                        d.u64(x as u64);
                    }
                }
                None => d.u64(77),
            }
        }
        if let Some(OpResult::Done(m)) = &obs.created {
            for f in &m.f {
                for &x in f {
                    d.u64(x as u64);
                }
            }
        }
        d
    }

    fn shrink(&self, sc: &Sc) -> Vec<Sc> {
        let mut out = Vec::new();
        // fewer ops
        for ops in chunk_removals(&sc.ops, 1) {
            out.push(Sc { ops, ..sc.clone() });
        }
        // fewer probes
        if !sc.probe_faces.is_empty() {
            out.push(Sc { probe_faces: vec![], ..sc.clone() });
            for p in chunk_removals(&sc.probe_faces, 1) {
                out.push(Sc { probe_faces: p, ..sc.clone() });
            }
        }
        // simpler start
        if let Start::Indices(v) = &sc.start {
            out.push(Sc { start: Start::All, ..sc.clone() });
            out.push(Sc { start: Start::None, ..sc.clone() });
            for c in chunk_removals(v, 0).into_iter().take(24) {
                out.push(Sc { start: Start::Indices(c), ..sc.clone() });
            }
        }
        // fewer faces in the mesh: indices in start / probes must be remapped
        if sc.mesh.f.len() > 1 {
            let idx: Vec<usize> = (0..sc.mesh.f.len()).collect();
            for keep in chunk_removals(&idx, 1).into_iter().take(40) {
                let map: BTreeMap<usize, usize> = keep.iter().enumerate().map(|(n, &o)| (o, n)).collect();
                let mesh = M { v: sc.mesh.v.clone(), f: keep.iter().map(|&i| sc.mesh.f[i]).collect() };
                let start = match &sc.start {
                    Start::Indices(v) => Start::Indices(v.iter().filter_map(|i| map.get(i).copied()).collect()),
                    s => s.clone(),
                };
                let probe_faces = sc.probe_faces.iter().filter_map(|i| map.get(i).copied()).collect();
                out.push(Sc { mesh, start, probe_faces, ..sc.clone() });
            }
        }
        // fewer reference faces
        for (ri, r) in sc.refs.iter().enumerate() {
            for f in chunk_removals(&r.f, 1).into_iter().take(12) {
                let mut refs = sc.refs.clone();
                refs[ri] = M { v: r.v.clone(), f };
                out.push(Sc { refs, ..sc.clone() });
            }
        }
        // drop optional tolerances
        for (oi, op) in sc.ops.iter().enumerate() {
            if let Crit::Near { reference, all, dist, planar, angle } = &op.crit {
                if planar.is_some() {
                    let mut ops = sc.ops.clone();
                    ops[oi].crit = Crit::Near { reference: *reference, all: *all, dist: *dist, planar: None, angle: *angle };
                    out.push(Sc { ops, ..sc.clone() });
                }
                if angle.is_some() {
                    let mut ops = sc.ops.clone();
                    ops[oi].crit = Crit::Near { reference: *reference, all: *all, dist: *dist, planar: *planar, angle: None };
                    out.push(Sc { ops, ..sc.clone() });
                }
            }
        }
        let c = sc.mesh.compact();
        if c != sc.mesh {
            out.push(Sc { mesh: c, ..sc.clone() });
        }
        out
    }

    fn valid(&self, sc: &Sc) -> bool {
        let nf = sc.mesh.f.len();
        let idx_ok = |m: &M| m.f.iter().all(|f| f.iter().all(|&v| (v as usize) < m.v.len()) && f[0] != f[1] && f[1] != f[2] && f[0] != f[2]);
        nf >= 1
            && sc.spread.as_ref().is_none_or(|(ids, n)| ids.len() == sc.mesh.v.len() && ids.iter().all(|&i| (i as usize) < *n))
            && idx_ok(&sc.mesh)
            && !sc.refs.is_empty()
            && sc.refs.iter().all(|r| !r.f.is_empty() && idx_ok(r))
            && sc.probe_faces.iter().all(|&f| f < nf)
            && match &sc.start {
                Start::Indices(v) => v.iter().all(|&f| f < nf),
                _ => true,
            }
            && sc.ops.iter().all(|o| match &o.crit {
                Crit::Near { reference, .. } => *reference < sc.refs.len(),
                _ => true,
            })
    }

    fn fingerprints(&self, sc: &Sc, _v: &Violation) -> Vec<String> {
        let mut fp = Vec::new();
        if sc.ops.iter().any(|o| matches!(o.crit, Crit::Near { angle: Some(_), .. })) {
            fp.push("near-mesh:angle-tol".into());
        }
        if sc.ops.iter().any(|o| matches!(o.crit, Crit::Near { .. })) {
            fp.push("near-mesh".into());
        }
        if sc.ops.iter().all(|o| matches!(o.crit, Crit::Facing { .. })) {
            fp.push("facing-only".into());
        }
        fp
    }

    fn nontrivial(&self, sc: &Sc) -> bool {
        !sc.ops.is_empty() && sc.mesh.f.len() >= 4
    }

    fn rule(&self) -> String {
        "one case = (history, consumed decision vector). A history is (mesh of 12-1500 faces whose vertices are shared by faces with different normals, 1-2 reference meshes, start selection None/All/Indices, 1-6 steps of (facing | near_mesh with optional planar and angle tolerances) x (Add|Remove|Keep)); every prefix of the history is executed and compared with a three-valued BTreeSet model whose predicate is recomputed per face with no memo; probed faces are additionally evaluated alone (singleton selection) and compared with the verdict inside the history. Each history runs under several decision vectors (hash policy per container: selection set, memo, check set, vertex maps). Non-trivial = at least one step on at least four faces with at least one decision consumed; distinct = distinct digest of (history JSON, consumed decisions).".into()
    }

    fn components(&self) -> serde_json::Value {
        json!({
            "real": ["engeom Mesh::face_select, TriangleFilter::{facing, near_mesh, collect, create_mesh}, Mesh::create_from_indices", "engeom Mesh::project_with_max_dist / parry3d point projection", "std hashbrown tables (simulator-chosen hashers)"],
            "replaced_by_simulator": ["std RandomState keys (iteration order of the selection set, memo, check set, vertex maps)"],
            "stubbed": []
        })
    }

    fn assumptions(&self) -> Vec<String> {
        vec![
            "the projection primitive (Mesh::project_with_max_dist, point_closest_to) is trusted inside the oracle; which reference triangle a vertex projects to is taken from it".into(),
            "comparisons within 1e-9 (relative to mesh size, absolute for angles) of a tolerance are not judged; such faces are excluded downstream and counted".into(),
            "hash orders are explored through a family of legal hashers, not all permutations".into(),
        ]
    }
}

fn op_name(op: &Op) -> String {
    let c = match &op.crit {
        Crit::Facing { .. } => "facing",
        Crit::Near { .. } => "near_mesh",
    };
    format!("TriangleFilter::{}({:?})", c, op.mode)
}

/// The mesh built from a selection: exactly the selected triangles, identical coordinates and
/// winding, only the vertices they use.
fn check_created(src: &M, sel: &BTreeSet<usize>, nm: &M) -> Option<String> {
    if nm.f.len() != sel.len() {
        return Some(format!("{} faces selected but the new mesh has {}", sel.len(), nm.f.len()));
    }
    // winding is the cyclic order of the three corners: the triple is compared up to rotation
    let bits = |t: [[f64; 3]; 3]| -> [[u64; 3]; 3] {
        let mut o = [[0u64; 3]; 3];
        for a in 0..3 {
            for b in 0..3 {
                o[a][b] = t[a][b].to_bits();
            }
        }
        let k = (0..3).min_by_key(|&k| o[k]).unwrap();
        [o[k], o[(k + 1) % 3], o[(k + 2) % 3]]
    };
    let mut want: BTreeMap<[[u64; 3]; 3], i64> = BTreeMap::new();
    for &i in sel {
        *want.entry(bits(src.tri(i))).or_insert(0) += 1;
    }
    let mut got: BTreeMap<[[u64; 3]; 3], i64> = BTreeMap::new();
    for i in 0..nm.f.len() {
        if nm.f[i].iter().any(|&v| v as usize >= nm.v.len()) {
            return Some(format!("face {} of the new mesh refers to a missing vertex", i));
        }
        *got.entry(bits(nm.tri(i))).or_insert(0) += 1;
    }
    if want != got {
        return Some("the triangles of the new mesh (corner coordinates, up to rotation of the triple) are not the selected triangles".into());
    }
    let used: BTreeSet<u32> = nm.f.iter().flat_map(|f| f.iter().copied()).collect();
    if used.len() != nm.v.len() {
        return Some(format!("the new mesh has {} vertices but its faces use {}", nm.v.len(), used.len()));
    }
    let src_used: BTreeSet<u32> = sel.iter().flat_map(|&i| src.f[i].iter().copied()).collect();
    if src_used.len() != nm.v.len() {
        return Some(format!("the selected faces use {} source vertices but the new mesh has {}", src_used.len(), nm.v.len()));
    }
    None
}
