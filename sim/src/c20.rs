//! C20 — conformal flattening is an isometry on planar disks and never folds them.

use crate::c12::budget;
use crate::core::*;
use crate::env::{OpResult, Sim, Swarm};
use crate::meshgen::*;
use crate::rng::{Digest, Rng};
use engeom::geom3::UvMapping;
use engeom::{Mesh, Point2, Point3};
use serde::{Deserialize, Serialize};
use serde_json::json;
use std::collections::BTreeSet;

pub struct C20;

#[derive(Serialize, Deserialize, Clone, Copy, Debug, PartialEq)]
pub enum Kind {
    Planar,
    Curved,
    Reject,
}

#[derive(Serialize, Deserialize, Clone, Debug)]
pub struct UvQuery {
    pub face: usize,
    pub bc: [f64; 3],
    /// offset of the 3-D test point along the face normal (fraction of the mesh size)
    pub h: f64,
}

/// A 3-D probe near the surface: a surface point (possibly on an edge or a vertex: zero
/// barycentric coordinates) plus an offset, both in the base pose; the offset is a fraction of
/// the mesh size. Its projection may land on a face, an edge or a vertex of the mesh.
#[derive(Serialize, Deserialize, Clone, Debug)]
pub struct NearQuery {
    pub face: usize,
    pub bc: [f64; 3],
    pub offset: [f64; 3],
}

#[derive(Serialize, Deserialize, Clone, Debug)]
pub struct Sc {
    pub label: String,
    pub kind: Kind,
    /// the mesh in its base pose (planar meshes lie in z = 0 here)
    pub mesh: M,
    pub poses: Vec<Pose>,
    pub uv_queries: Vec<UvQuery>,
    #[serde(default)]
    pub near_queries: Vec<NearQuery>,
    /// how the flattened layout is turned into the UV chart of the companion round trip:
    /// 0 as it is, 1 v axis flipped (image coordinates), 2 u and v exchanged, 3 rotated and scaled,
    /// 4 chart vertices in reverse order, 5 three chart vertices of its own per face, 6 like 5 with
    /// the mesh built by `Mesh::new_with_options(.., delete_degenerate = true, Some(chart))`
    #[serde(default)]
    pub chart: u8,
}

pub struct UvObs {
    pub to_3d: Vec<Option<([f64; 3], [f64; 3])>>,
    pub back: Vec<Option<([f64; 2], f64)>>,
    /// per near query: uv_with_tol(p) and then uv_to_3d of that uv
    pub near: Vec<Option<([f64; 2], Option<[f64; 3]>)>>,
    /// query - change - query: a plain one-triangle mesh appended to the mesh that carries the UV
    /// map: (append returned Ok, the mesh still reports a UV map, the centre of the new triangle,
    /// that centre through uv_with_tol and uv_to_3d)
    pub grown: (bool, bool, [f64; 3], Option<[f64; 3]>),
}

pub struct PoseObs {
    pub construct: Option<String>,
    /// Ok(number of boundary loops, first vertex of loop 0) or the error text
    pub edges: OpResult<Result<(usize, Option<u32>), String>>,
    pub flat: Option<OpResult<Result<Vec<[f64; 2]>, String>>>,
    pub uv: Option<OpResult<Result<UvObs, String>>>,
}

pub struct Obs {
    pub poses: Vec<PoseObs>,
}

// ---------------------------------------------------------------------------------------------
// generators

fn consistent_planar(m: &M) -> bool {
    let s = m.size();
    (0..m.f.len()).all(|i| {
        let t = m.tri(i);
        let c = cross(sub(t[1], t[0]), sub(t[2], t[0]));
        c[2] > 1e-4 * s * s / (m.f.len() as f64)
    })
}

pub fn is_disk(m: &M) -> bool {
    if m.has_pinched_vertex() || m.has_repeated_directed_edge() || !m.in_domain() {
        return false;
    }
    if m.edge_components().len() != 1 {
        return false;
    }
    let used: BTreeSet<u32> = m.f.iter().flat_map(|f| f.iter().copied()).collect();
    if used.len() != m.v.len() {
        return false;
    }
    match m.simple_boundary_cycles() {
        Some(c) if c.len() == 1 => m.euler_characteristic() == 1,
        _ => false,
    }
}

fn gen_planar_base(rng: &mut Rng, tier: Tier) -> (String, M) {
    // mostly jittered vertices; sometimes the exact lattice (corners with bit-equal angles and
    // lengths: whatever breaks a tie must not depend on the pose)
    let jit = if rng.chance(0.2) { 0.0 } else { 0.15 };
    let max_cells = match tier {
        Tier::Quick => *rng.pick(&[2usize, 8, 30, 100, 200]),
        Tier::Thorough => *rng.pick(&[2usize, 8, 30, 100, 400, 1000]),
    };
    loop {
        let (label, m): (String, M) = match rng.below(6) {
            0 => {
                // fan around a centre
                let n = 3 + rng.below(max_cells.min(60));
                let full = rng.chance(0.5);
                let span = if full { std::f64::consts::TAU } else { rng.uniform(1.0, 5.5) };
                let mut v = vec![[0.0, 0.0, 0.0]];
                let cnt = if full { n } else { n + 1 };
                for i in 0..cnt {
                    let a = span * i as f64 / n as f64;
                    let r = rng.uniform(0.6, 1.4);
                    v.push([r * a.cos(), r * a.sin(), 0.0]);
                }
                let mut f = Vec::new();
                for i in 0..n {
                    let a = 1 + i as u32;
                    let b = 1 + ((i + 1) % cnt) as u32;
                    f.push([0, a, b]);
                }
                if full {
                    // the centre is interior, the ring is the boundary
                    ("fan-closed".into(), M { v, f })
                } else {
                    ("fan-open".into(), M { v, f })
                }
            }
            1 => {
                // now and then a very long strip: its boundary has more than 1024 vertices
                let long = rng.chance(if tier == Tier::Quick { 0.004 } else { 0.01 });
                let n = if long { 515 + rng.below(400) } else { 1 + rng.below(max_cells.min(200)) };
                let cell = rng.log_uniform(0.1, 3.0);
                ("strip".into(), grid_diag(rng, n, 1, cell, jit, &|_, _| true, rng_bool(n)))
            }
            2 => {
                let side = ((max_cells as f64).sqrt() as usize).max(1);
                let nx = 1 + rng.below(side + 1);
                let ny = 1 + rng.below(side + 1);
                let cell = rng.log_uniform(0.1, 3.0);
                let rd = rng.chance(0.5);
                ("rectangle".into(), grid_diag(rng, nx, ny, cell, jit, &|_, _| true, rd))
            }
            _ => {
                // non-convex outline grown cell by cell (L, U, comb shapes come out of the growth)
                let side = ((max_cells as f64).sqrt() as usize).max(2) + 1;
                let nx = 2 + rng.below(side);
                let ny = 2 + rng.below(side);
                let target = (1 + rng.below(max_cells)).min(nx * ny);
                let cells = disk_cells(rng, nx, ny, target);
                let cell = rng.log_uniform(0.1, 3.0);
                let rd = rng.chance(0.5);
                ("grown-outline".into(), grid_diag(rng, nx, ny, cell, jit, &|i, j| cells.contains(&(i, j)), rd).compact())
            }
        };
        if is_disk(&m) && consistent_planar(&m) {
            return (label, m);
        }
    }
}

fn rng_bool(n: usize) -> bool {
    n % 2 == 0
}

fn scramble(rng: &mut Rng, m: &mut M) {
    if rng.chance(0.8) {
        renumber_vertices(rng, m);
    }
    if rng.chance(0.8) {
        shuffle_faces(rng, m);
    }
    if rng.chance(0.8) {
        rotate_triples(rng, m);
    }
}

fn gen_reject(rng: &mut Rng) -> (String, M) {
    loop {
        let (label, mut m): (String, M) = match rng.below(6) {
            0 => {
                let mut m = if rng.chance(0.5) { tetrahedron() } else { octahedron() };
                for _ in 0..rng.below(3) {
                    m = subdivide(&m, true);
                }
                ("closed-surface".into(), m)
            }
            1 => ("closed-box".into(), cuboid(rng.uniform(0.5, 2.0), rng.uniform(0.5, 2.0), rng.uniform(0.5, 2.0))),
            2 => {
                let around = 3 + rng.below(20);
                ("tube-two-boundaries".into(), tube(around, 1 + rng.below(5), 1.0, 2.0))
            }
            3 => {
                // plate with one or more holes
                let nx = 3 + rng.below(8);
                let ny = 3 + rng.below(8);
                let nh = 1 + rng.below(3);
                let mut holes = BTreeSet::new();
                for _ in 0..nh {
                    holes.insert((1 + rng.below(nx - 2), 1 + rng.below(ny - 2)));
                }
                let g = grid(rng, nx, ny, 1.0, 0.1, &|i, j| !holes.contains(&(i, j))).compact();
                ("plate-with-holes".into(), g)
            }
            4 => {
                // an edge in three faces
                let (_, mut m) = gen_planar_base(rng, Tier::Quick);
                let e = m.f[rng.below(m.f.len())];
                let apex = m.v.len() as u32;
                m.v.push([0.3, 0.3, 1.0]);
                m.f.push([e[0], e[1], apex]);
                let counts = m.edge_counts();
                if counts.values().all(|&c| c <= 2) {
                    // the chosen edge was a boundary edge: add a second fin
                    let apex2 = m.v.len() as u32;
                    m.v.push([0.3, 0.3, -1.0]);
                    m.f.push([e[1], e[0], apex2]);
                }
                if m.edge_counts().values().all(|&c| c <= 2) {
                    continue;
                }
                ("edge-in-three-faces".into(), m)
            }
            _ => {
                // two disks sharing one vertex
                let (_, a) = gen_planar_base(rng, Tier::Quick);
                let (_, mut b) = gen_planar_base(rng, Tier::Quick);
                translate(&mut b, [a.size() * 2.0 + 1.0, 0.0, 0.5]);
                let va = *rng.pick(&a.boundary_degree().keys().copied().collect::<Vec<_>>());
                let vb = *rng.pick(&b.boundary_degree().keys().copied().collect::<Vec<_>>());
                ("two-disks-sharing-a-vertex".into(), union(&a, &b, Some((va, vb))).compact())
            }
        };
        scramble(rng, &mut m);
        if m.has_distinct_positions() {
            return (label, m);
        }
    }
}

// ---------------------------------------------------------------------------------------------
// oracle helpers

/// Best planar rigid motion (rotation + translation, no reflection) taking `a` onto `b`;
/// returns the maximum residual.
fn procrustes_residual(a: &[[f64; 2]], b: &[[f64; 2]]) -> f64 {
    let n = a.len() as f64;
    let ca = a.iter().fold([0.0, 0.0], |s, p| [s[0] + p[0] / n, s[1] + p[1] / n]);
    let cb = b.iter().fold([0.0, 0.0], |s, p| [s[0] + p[0] / n, s[1] + p[1] / n]);
    let (mut sd, mut sc) = (0.0, 0.0);
    for (p, q) in a.iter().zip(b.iter()) {
        let (ax, ay) = (p[0] - ca[0], p[1] - ca[1]);
        let (bx, by) = (q[0] - cb[0], q[1] - cb[1]);
        sd += ax * bx + ay * by;
        sc += ax * by - ay * bx;
    }
    let th = sc.atan2(sd);
    let (c, s) = (th.cos(), th.sin());
    let mut worst = 0.0f64;
    for (p, q) in a.iter().zip(b.iter()) {
        let (ax, ay) = (p[0] - ca[0], p[1] - ca[1]);
        let rx = c * ax - s * ay + cb[0];
        let ry = s * ax + c * ay + cb[1];
        worst = worst.max(((rx - q[0]).powi(2) + (ry - q[1]).powi(2)).sqrt());
    }
    worst
}

/// The layout positions of the vertices that some face refers to (where a vertex no face refers
/// to is put is nobody's business).
fn referenced(m: &M, uv: &[[f64; 2]]) -> Vec<[f64; 2]> {
    let mut used = vec![false; m.v.len()];
    for f in &m.f {
        for &i in f {
            used[i as usize] = true;
        }
    }
    uv.iter().zip(used.iter()).filter(|(_, &u)| u).map(|(p, _)| *p).collect()
}

/// The affine map that turns the flattened layout into the UV chart used by the companion.
fn chart_apply(chart: u8, p: [f64; 2]) -> [f64; 2] {
    match chart {
        1 => [p[0], -p[1]],
        2 => [p[1], p[0]],
        3 => [3.0 * (0.6 * p[0] - 0.8 * p[1] + 2.0), 3.0 * (0.8 * p[0] + 0.6 * p[1] - 1.0)],
        _ => p,
    }
}

fn posed_mesh(sc: &Sc, p: &Pose) -> M {
    p.apply_mesh(&sc.mesh)
}

fn engeom_mesh(m: &M) -> Mesh {
    crate::c12::to_mesh(m)
}

/// Maximum relative edge-length distortion of a layout.
fn distortion(m: &M, uv: &[[f64; 2]]) -> f64 {
    let mut worst = 0.0f64;
    for e in m.edge_counts().keys() {
        let l3 = dist3(m.v[e.0 as usize], m.v[e.1 as usize]);
        let a = uv[e.0 as usize];
        let b = uv[e.1 as usize];
        let l2 = ((a[0] - b[0]).powi(2) + (a[1] - b[1]).powi(2)).sqrt();
        worst = worst.max((l2 - l3).abs() / l3);
    }
    worst
}

impl Property for C20 {
    type Scenario = Sc;
    type Obs = Obs;

    fn id(&self) -> &'static str {
        "C20"
    }

    fn runs(&self, tier: Tier) -> u64 {
        match tier {
            Tier::Quick => 80_000,
            Tier::Thorough => 2_000_000,
        }
    }

    fn generate(&self, rng: &mut Rng, tier: Tier) -> Sc {
        let kind = *rng.pick(&[Kind::Planar, Kind::Planar, Kind::Planar, Kind::Curved, Kind::Curved, Kind::Reject]);
        let mut return_rolled = false;
        let (mut label, mut mesh) = match kind {
            Kind::Planar => {
                let (mut l, mut m) = gen_planar_base(rng, tier);
                // stretched copies: thin triangles, negative cotangent weights - still planar
                if rng.chance(0.25) {
                    let k = rng.log_uniform(1.5, 4.0);
                    let shear = rng.uniform(-0.5, 0.5);
                    for p in m.v.iter_mut() {
                        *p = [p[0] * k + shear * p[1], p[1], 0.0];
                    }
                    l.push_str("+stretched");
                }
                scramble(rng, &mut m);
                (l, m)
            }
            Kind::Curved => {
                let (l, mut m) = gen_planar_base(rng, tier);
                let s = m.size();
                match rng.below(3) {
                    0 => {
                        let (a, k) = (rng.uniform(0.02, 0.25) * s, rng.uniform(1.0, 6.0) / s);
                        for p in m.v.iter_mut() {
                            p[2] = a * ((p[0] * k).sin() + (p[1] * k * 0.8).cos());
                        }
                    }
                    1 => {
                        // spherical cap: lift onto a sphere of radius R
                        let r = s * rng.uniform(0.8, 4.0);
                        let mut c = [0.0; 3];
                        for p in &m.v {
                            c = add(c, *p);
                        }
                        c = scale(c, 1.0 / m.v.len() as f64);
                        for p in m.v.iter_mut() {
                            let d2 = (p[0] - c[0]).powi(2) + (p[1] - c[1]).powi(2);
                            p[2] = (r * r - d2.min(r * r * 0.9)).sqrt() - r;
                        }
                    }
                    _ => {
                        // developable: roll onto a cylinder (lengths preserved up to chord error)
                        let r = s * rng.uniform(0.5, 3.0);
                        for p in m.v.iter_mut() {
                            let a = p[0] / r;
                            *p = [r * a.sin(), p[1], r * (1.0 - a.cos())];
                        }
                        scramble(rng, &mut m);
                        return_rolled = true;
                    }
                }
                if !return_rolled {
                    scramble(rng, &mut m);
                }
                (format!("{}+curved{}", l, if return_rolled { "+rolled" } else { "" }), m)
            }
            Kind::Reject => gen_reject(rng),
        };
        if kind != Kind::Reject && !mesh.has_distinct_positions() {
            mesh = gen_planar_base(rng, tier).1;
        }
        // a consistently wound disk may just as well face the other way (every face reversed)
        if kind != Kind::Reject && rng.chance(0.25) {
            for f in mesh.f.iter_mut() {
                f.swap(1, 2);
            }
            label.push_str("+face-down");
        }
        // the length unit is arbitrary: micrometre-sized and kilometre-sized copies must behave alike
        // (bounded below so that every face keeps an area above 1e-13: parry treats a triangle
        // whose cross product is below f64::EPSILON as having no normal at all)
        if rng.chance(0.5) {
            let min_area = (0..mesh.f.len()).map(|i| mesh.area(i)).fold(f64::INFINITY, f64::min);
            let lowest = (1e-13 / min_area.max(1e-300)).sqrt().max(1e-6);
            let s = rng.log_uniform(lowest, lowest.max(1e4));
            for p in mesh.v.iter_mut() {
                *p = scale(*p, s);
            }
            label.push_str("+scaled");
        }
        // vertices no face refers to are legal (a dummy entry 0 left by a one-based file format, a
        // point kept for reference): they get a finite position like every other vertex and must
        // not disturb the rest
        if kind != Kind::Reject && rng.chance(0.12) {
            let k = 1 + rng.below(2);
            let extra: Vec<[f64; 3]> = (0..k)
                .map(|_| {
                    let (a, b) = (mesh.v[rng.below(mesh.v.len())], mesh.v[rng.below(mesh.v.len())]);
                    let w = rng.uniform(0.2, 0.8);
                    add(scale(a, w), scale(b, 1.0 - w))
                })
                .collect();
            let at = match rng.below(3) {
                0 => 0,
                1 => mesh.v.len(),
                _ => rng.below(mesh.v.len() + 1),
            };
            for (i, p) in extra.iter().enumerate() {
                mesh.v.insert(at + i, *p);
            }
            for f in mesh.f.iter_mut() {
                for x in f.iter_mut() {
                    if *x as usize >= at {
                        *x += k as u32;
                    }
                }
            }
            label.push_str(if at == 0 { "+unreferenced-vertex-0" } else { "+unreferenced-vertices" });
        }
        let size = mesh.size();
        let np = if kind == Kind::Reject { 1 } else { 2 + rng.below(2) };
        let mut poses = Vec::new();
        for i in 0..np {
            if i == 0 && rng.chance(0.4) {
                poses.push(Pose::identity());
            } else if rng.chance(0.2) {
                // exact quarter and half turns (signed permutation matrices of determinant +1): a
                // planar disk stays exactly in a coordinate plane, possibly face down
                let perms = [[0usize, 1, 2], [1, 2, 0], [2, 0, 1], [0, 2, 1], [2, 1, 0], [1, 0, 2]];
                let p = perms[rng.below(6)];
                let even = matches!(p, [0, 1, 2] | [1, 2, 0] | [2, 0, 1]);
                let mut sg = [if rng.chance(0.5) { 1.0 } else { -1.0 }, if rng.chance(0.5) { 1.0 } else { -1.0 }, 1.0];
                // fix the last sign so that the determinant is +1
                let parity = if even { 1.0 } else { -1.0 };
                sg[2] = parity * sg[0] * sg[1];
                let mut r = [[0.0; 3]; 3];
                for k in 0..3 {
                    r[k][p[k]] = sg[k];
                }
                let t = if rng.chance(0.5) { [0.0; 3] } else { [size * rng.range(-3, 3) as f64, 0.0, size * rng.range(-3, 3) as f64] };
                poses.push(Pose { r, t });
            } else {
                let t = size * *rng.pick(&[0.0, 1.0, 10.0, 1000.0]);
                poses.push(Pose::random(rng, t));
            }
        }
        let mut uv_queries = Vec::new();
        if kind == Kind::Planar {
            for _ in 0..(2 + rng.below(8)) {
                let mut bc = [rng.uniform(0.1, 1.0), rng.uniform(0.1, 1.0), rng.uniform(0.1, 1.0)];
                let s: f64 = bc.iter().sum();
                for b in bc.iter_mut() {
                    *b /= s;
                }
                uv_queries.push(UvQuery { face: rng.below(mesh.f.len()), bc, h: *rng.pick(&[0.0, 0.01, -0.01, 0.05]) });
            }
        }
        // probes near the surface whose projection may land on an edge or a vertex (rim of the
        // sheet, convex ridge); only where the layout is injective (planar, rolled sheets)
        let mut near_queries = Vec::new();
        if kind == Kind::Planar || label.contains("+rolled") {
            let bdeg = mesh.boundary_degree();
            for _ in 0..(2 + rng.below(8)) {
                let face = rng.below(mesh.f.len());
                let f = mesh.f[face];
                let t = mesh.tri(face);
                let n = mesh.normal(face).unwrap_or([0.0, 0.0, 1.0]);
                let k = rng.below(3);
                let (bc, offset) = match rng.below(4) {
                    0 => {
                        // anywhere on the face, random offset
                        let mut bc = [rng.f64(), rng.f64(), rng.f64()];
                        let s: f64 = bc.iter().sum::<f64>().max(1e-9);
                        for b in bc.iter_mut() {
                            *b /= s;
                        }
                        (bc, scale(unit([rng.normal(), rng.normal(), rng.normal() + 1e-3]), rng.uniform(0.0, 0.05)))
                    }
                    1 | 2 => {
                        // on edge k (from corner k to corner k+1), pushed outward in the face plane
                        let tt = rng.uniform(0.05, 0.95);
                        let mut bc = [0.0; 3];
                        bc[k] = 1.0 - tt;
                        bc[(k + 1) % 3] = tt;
                        let (a, b, c3) = (t[k], t[(k + 1) % 3], t[(k + 2) % 3]);
                        let e = add(scale(a, 1.0 - tt), scale(b, tt));
                        let ab = unit(sub(b, a));
                        let w = sub(e, c3);
                        let outward = unit(sub(w, scale(ab, dot(w, ab))));
                        let up = *rng.pick(&[0.0, 0.01, -0.01, 0.03]);
                        (bc, add(scale(outward, rng.uniform(0.002, 0.03)), scale(n, up)))
                    }
                    _ => {
                        // at corner k, random offset
                        let mut bc = [0.0; 3];
                        bc[k] = 1.0;
                        let _ = (f, &bdeg);
                        (bc, scale(unit([rng.normal(), rng.normal(), rng.normal() + 1e-3]), rng.uniform(0.002, 0.03)))
                    }
                };
                near_queries.push(NearQuery { face, bc, offset });
            }
        }
        let chart = if rng.chance(0.5) { 1 + rng.below(6) as u8 } else { 0 };
        Sc { label, kind, mesh, poses, uv_queries, near_queries, chart }
    }

    fn swarm(&self, rng: &mut Rng, sc: &Sc) -> Swarm {
        let mut w = *rng.pick(&[[4u32, 1, 1, 1, 0], [1, 1, 1, 1, 0], [1, 0, 0, 0, 0], [0, 1, 1, 1, 0]]);
        if sc.mesh.f.len() <= 24 && rng.chance(0.3) {
            w[4] = 1;
        }
        Swarm { order_weights: w, fault_rate: 0.0, boundary_bits: Vec::new() }
    }

    fn vectors(&self, rng: &mut Rng, tier: Tier, sc: &Sc) -> usize {
        let big = sc.mesh.f.len() > 400;
        match tier {
            Tier::Quick => if big { 2 } else { 2 + rng.below(3) },
            Tier::Thorough => if big { 3 } else { 4 + rng.below(13) },
        }
    }

    fn execute(&self, sc: &Sc, sim: &Sim) -> Obs {
        let n = sc.mesh.v.len() + sc.mesh.f.len();
        let b = budget(n) * 8;
        let mut poses = Vec::new();
        for (pi, pose) in sc.poses.iter().enumerate() {
            // every pose of this vector runs under exactly the same decisions
            sim.rewind();
            let pm = posed_mesh(sc, pose);
            let mesh = match sim.op("Mesh::new", b, || engeom_mesh(&pm)) {
                OpResult::Done(m) => m,
                OpResult::Panic(m) => {
                    poses.push(PoseObs { construct: Some(m), edges: OpResult::Budget(0), flat: None, uv: None });
                    continue;
                }
                OpResult::Budget(_) => {
                    poses.push(PoseObs { construct: Some("budget".into()), edges: OpResult::Budget(0), flat: None, uv: None });
                    continue;
                }
            };
            let mut flat = None;
            let edges = sim.op("Mesh::calc_edges", b, || match mesh.calc_edges() {
                Ok(e) => Ok((e.boundary_loops.len(), e.boundary_loops.first().and_then(|l| l.first().copied()))),
                Err(e) => Err(e.to_string()),
            });
            if let OpResult::Done(Ok(_)) = &edges {
                flat = Some(sim.op("MeshEdges::boundary_first_flatten", b, || {
                    let e = mesh.calc_edges().map_err(|e| e.to_string())?;
                    e.boundary_first_flatten().map(|uv| uv.iter().map(|p| [p.x, p.y]).collect::<Vec<_>>()).map_err(|e| e.to_string())
                }));
            }
            // UV round trip on the first pose of planar scenarios (companion)
            let mut uv = None;
            if pi == 0 && (sc.kind == Kind::Planar || !sc.near_queries.is_empty()) {
                if let Some(OpResult::Done(Ok(layout))) = &flat {
                    let size = sc.mesh.size();
                    uv = Some(sim.op("Mesh::uv_to_3d/uv_with_tol", b, || {
                        // any chart of the same triangles is a UV map, whatever its handedness
                        let chart_pt = |p: &[f64; 2]| -> Point2 {
                            let q = chart_apply(sc.chart, *p);
                            Point2::new(q[0], q[1])
                        };
                        // a chart has its own vertex list: same numbering as the mesh (modes 0-3), its
                        // vertices listed in reverse order (4), or three vertices of its own per face,
                        // split along every edge (5); face ids are what chart and mesh share
                        let nv = layout.len() as u32;
                        let (chart_v, chart_f): (Vec<Point2>, Vec<[u32; 3]>) = match sc.chart {
                            4 => (
                                layout.iter().rev().map(chart_pt).collect(),
                                pm.f.iter().map(|f| [nv - 1 - f[0], nv - 1 - f[1], nv - 1 - f[2]]).collect(),
                            ),
                            5 | 6 => {
                                let mut v = Vec::new();
                                let mut f = Vec::new();
                                for face in &pm.f {
                                    let b = v.len() as u32;
                                    for k in 0..3 {
                                        v.push(chart_pt(&layout[face[k] as usize]));
                                    }
                                    f.push([b, b + 1, b + 2]);
                                }
                                (v, f)
                            }
                            _ => (layout.iter().map(chart_pt).collect(), pm.f.clone()),
                        };
                        let map = UvMapping::new(chart_v, chart_f).map_err(|e| e.to_string())?;
                        let verts: Vec<Point3> = pm.v.iter().map(|p| Point3::new(p[0], p[1], p[2])).collect();
                        // the clean-up options of `new_with_options` are about the surface; the
                        // surface here needs none of them, and the chart must come through as given
                        let with_uv = if sc.chart == 6 {
                            Mesh::new_with_options(verts, pm.f.clone(), false, false, true, Some(map)).map_err(|e| e.to_string())?
                        } else {
                            Mesh::new_with_uv(verts, pm.f.clone(), false, Some(map))
                        };
                        let mut to_3d = Vec::new();
                        let mut back = Vec::new();
                        for q in &sc.uv_queries {
                            let uvp = with_uv.uv().ok_or_else(|| "Mesh::new_with_uv was given a UV map matching the mesh face by face, but Mesh::uv reports none".to_string())?.point(q.face, q.bc);
                            to_3d.push(with_uv.uv_to_3d(&uvp).map(|s| ([s.point.x, s.point.y, s.point.z], [s.normal.x, s.normal.y, s.normal.z])));
                            let t = pm.tri(q.face);
                            let p3 = add(add(scale(t[0], q.bc[0]), scale(t[1], q.bc[1])), scale(t[2], q.bc[2]));
                            let nrm = pm.normal(q.face).unwrap();
                            let test = add(p3, scale(nrm, q.h * size));
                            let max_angle = if q.h == 0.0 { 4.0 } else { 0.1 };
                            // every other query hands the point over in another frame together
                            // with the transform that brings it back
                            let tp = Point3::new(test[0], test[1], test[2]);
                            let res = if back.len() % 2 == 1 {
                                let iso = engeom::Iso3::new(engeom::Vector3::new(0.3 * size, -0.2 * size, 0.1 * size), engeom::Vector3::new(0.4, -0.3, 0.9));
                                let moved = iso.inverse() * tp;
                                with_uv.uv_with_tol(&moved, (q.h.abs() * 2.0 + 0.01) * size, max_angle, Some(&iso))
                            } else {
                                with_uv.uv_with_tol(&tp, (q.h.abs() * 2.0 + 0.01) * size, max_angle, None)
                            };
                            back.push(res.map(|(p, d)| ([p.x, p.y], d)));
                        }
                        let mut near = Vec::new();
                        for q in &sc.near_queries {
                            let t = sc.mesh.tri(q.face);
                            let base = add(add(scale(t[0], q.bc[0]), scale(t[1], q.bc[1])), scale(t[2], q.bc[2]));
                            let p = pose.apply(add(base, scale(q.offset, size)));
                            let reach = (norm(q.offset) * 2.0 + 0.01) * size;
                            near.push(with_uv.uv_with_tol(&Point3::new(p[0], p[1], p[2]), reach, 4.0, None).map(|(uvp, _)| {
                                ([uvp.x, uvp.y], with_uv.uv_to_3d(&uvp).map(|s| [s.point.x, s.point.y, s.point.z]))
                            }));
                        }
                        // a mesh that carries a UV map is asked to take in a mesh without one:
                        // either it refuses, or every surface point of what it then holds -
                        // including the new triangle - still goes to UV coordinates and back
                        let mut grown_mesh = with_uv.clone();
                        let t0 = pm.tri(0);
                        let shift = [7.0 * size, 3.0 * size, 5.0 * size];
                        let tri: Vec<Point3> = t0.iter().map(|p| Point3::new(p[0] + shift[0], p[1] + shift[1], p[2] + shift[2])).collect();
                        let centre = [
                            (t0[0][0] + t0[1][0] + t0[2][0]) / 3.0 + shift[0],
                            (t0[0][1] + t0[1][1] + t0[2][1]) / 3.0 + shift[1],
                            (t0[0][2] + t0[1][2] + t0[2][2]) / 3.0 + shift[2],
                        ];
                        let patch = Mesh::new(tri, vec![[0, 1, 2]], false);
                        let accepted = grown_mesh.append(&patch).is_ok();
                        let has_uv = grown_mesh.uv().is_some();
                        let round = if accepted && has_uv {
                            grown_mesh
                                .uv_with_tol(&Point3::new(centre[0], centre[1], centre[2]), 0.01 * size, 4.0, None)
                                .and_then(|(uvp, _)| grown_mesh.uv_to_3d(&uvp))
                                .map(|s| [s.point.x, s.point.y, s.point.z])
                        } else {
                            None
                        };
                        Ok(UvObs { to_3d, back, near, grown: (accepted, has_uv, centre, round) })
                    }));
                }
            }
            poses.push(PoseObs { construct: None, edges, flat, uv });
        }
        Obs { poses }
    }

    fn judge(&self, sc: &Sc, runs: &[VectorRun<Obs>], stats: &mut Stats) -> Vec<Violation> {
        let mut out = Vec::new();
        let size = sc.mesh.size();
        let lmax = sc.mesh.edge_counts().keys().map(|e| dist3(sc.mesh.v[e.0 as usize], sc.mesh.v[e.1 as usize])).fold(0.0, f64::max);
        let flatten = "MeshEdges::boundary_first_flatten";
        // layouts[vector][pose]
        let mut layouts: Vec<Vec<Option<&Vec<[f64; 2]>>>> = Vec::new();
        let mut starts: BTreeSet<u32> = BTreeSet::new();
        for (vi, r) in runs.iter().enumerate() {
            let mut row = Vec::new();
            for (pi, po) in r.obs.poses.iter().enumerate() {
                let posed = posed_mesh(sc, &sc.poses[pi]);
                if let Some(m) = &po.construct {
                    out.push(Violation::new("panic", "Mesh::new", m.clone(), &[vi]));
                    row.push(None);
                    continue;
                }
                let mut layout = None;
                match &po.edges {
                    OpResult::Panic(m) => out.push(Violation::new("panic", "Mesh::calc_edges", m.clone(), &[vi])),
                    OpResult::Budget(b) => out.push(Violation::new("step-budget", "Mesh::calc_edges", format!("did not finish within {} ticks", b), &[vi])),
                    OpResult::Done(Err(e)) => {
                        if sc.kind != Kind::Reject {
                            out.push(Violation::new("unexpected-error", "Mesh::calc_edges", format!("Err({}) on a disk mesh", e), &[vi]));
                        } else {
                            stats.bump("reject:at-calc-edges");
                        }
                    }
                    OpResult::Done(Ok((nloops, start))) => {
                        if let Some(s) = start {
                            if pi == 0 {
                                starts.insert(*s);
                            }
                        }
                        match po.flat.as_ref() {
                            None => {}
                            Some(OpResult::Panic(m)) => out.push(Violation::new("panic", flatten, m.clone(), &[vi])),
                            Some(OpResult::Budget(b)) => out.push(Violation::new("step-budget", flatten, format!("did not finish within {} ticks", b), &[vi])),
                            Some(OpResult::Done(Err(e))) => {
                                if sc.kind == Kind::Reject {
                                    stats.bump("reject:at-flatten");
                                } else {
                                    out.push(Violation::new("unexpected-error", flatten, format!("Err({}) on a disk mesh ({} boundary loops)", e, nloops), &[vi]));
                                }
                            }
                            Some(OpResult::Done(Ok(uv))) => {
                                if sc.kind == Kind::Reject {
                                    out.push(Violation::new("non-disk-accepted", flatten, format!("a mesh that is not a single-boundary disk ({}) was flattened without error", sc.label), &[vi]));
                                } else if uv.len() != posed.v.len() || uv.iter().any(|p| !p[0].is_finite() || !p[1].is_finite()) {
                                    out.push(Violation::new("layout-not-finite", flatten, format!("{} positions for {} vertices, or a non-finite coordinate", uv.len(), posed.v.len()), &[vi]));
                                } else {
                                    layout = Some(uv);
                                }
                            }
                        }
                    }
                }
                // shape: planar input keeps edge lengths and orientation
                if let (Some(uv), Kind::Planar) = (layout, sc.kind) {
                    stats.bump("planar:layouts-checked");
                    let mut worst_len = 0.0f64;
                    for e in posed.edge_counts().keys() {
                        let l3 = dist3(posed.v[e.0 as usize], posed.v[e.1 as usize]);
                        let (a, b) = (uv[e.0 as usize], uv[e.1 as usize]);
                        let l2 = ((a[0] - b[0]).powi(2) + (a[1] - b[1]).powi(2)).sqrt();
                        worst_len = worst_len.max((l2 - l3).abs());
                    }
                    stats.max_f("planar:edge-length-error/lmax", worst_len / lmax);
                    if worst_len > 1e-6 * lmax {
                        out.push(Violation::new("not-isometric", flatten, format!("an edge changes length by {:.3e} (longest edge {:.3e}) on a planar disk of {} vertices", worst_len, lmax, posed.v.len()), &[vi]));
                    } else {
                        for (fi, f) in posed.f.iter().enumerate() {
                            let (a, b, c) = (uv[f[0] as usize], uv[f[1] as usize], uv[f[2] as usize]);
                            let a2 = 0.5 * ((b[0] - a[0]) * (c[1] - a[1]) - (b[1] - a[1]) * (c[0] - a[0]));
                            let a3 = posed.area(fi);
                            if a2 <= 0.0 {
                                out.push(Violation::new("triangle-folded", flatten, format!("face {} has signed area {:.3e} in the layout (3-D area {:.3e})", fi, a2, a3), &[vi]));
                                break;
                            }
                            if (a2 - a3).abs() > 1e-5 * a3 + 1e-8 * lmax * lmax {
                                out.push(Violation::new("not-isometric", flatten, format!("face {} has area {:.6e} in the layout but {:.6e} in 3-D", fi, a2, a3), &[vi]));
                                break;
                            }
                        }
                    }
                }
                // UV round trip
                if let Some(u) = &po.uv {
                    match u {
                        OpResult::Panic(m) => out.push(Violation::new("panic", "Mesh::uv_to_3d/uv_with_tol", m.clone(), &[vi])),
                        OpResult::Budget(_) => {}
                        OpResult::Done(Err(e)) => out.push(Violation::new("unexpected-error", "UvMapping::new / Mesh::new_with_uv", e.clone(), &[vi])),
                        OpResult::Done(Ok(o)) => {
                            let (accepted, has_uv, centre, round) = &o.grown;
                            if *accepted && *has_uv {
                                stats.bump("probe:uv-mesh-accepted-a-plain-append");
                                if !round.is_some_and(|p| dist3(p, *centre) <= 1e-6 * size) {
                                    out.push(Violation::new("uv-round-trip", "Mesh::append + uv_with_tol", format!("a mesh with a UV map accepted a mesh without one and still reports a UV map, but the centre {:?} of the appended triangle comes back from UV coordinates as {:?}", centre, round), &[vi]));
                                }
                            } else {
                                stats.bump("probe:uv-mesh-refused-or-dropped-uv-on-append");
                            }
                            let uv = layout;
                            // probes near the surface: through UV and back must give the closest
                            // point of the mesh (only judged where that point is unique by a margin
                            // and the layout is near-isometric, hence injective)
                            if let Some(l) = uv {
                                if distortion(&posed, l) < 1e-3 {
                                    for (qi, q) in sc.near_queries.iter().enumerate() {
                                        let t = sc.mesh.tri(q.face);
                                        let base = add(add(scale(t[0], q.bc[0]), scale(t[1], q.bc[1])), scale(t[2], q.bc[2]));
                                        let p = sc.poses[pi].apply(add(base, scale(q.offset, size)));
                                        let mut best = (f64::INFINITY, [0.0; 3]);
                                        let mut fbest = 0;
                                        let mut cands: Vec<(f64, [f64; 3])> = Vec::new();
                                        for fi in 0..posed.f.len() {
                                            let cp = closest_on_triangle(p, &posed.tri(fi));
                                            let d = dist3(p, cp);
                                            cands.push((d, cp));
                                            if d < best.0 {
                                                best = (d, cp);
                                                fbest = fi;
                                            }
                                        }
                                        // unique closest point: every candidate that is nearly as
                                        // close must be (nearly) the same point
                                        let unique = cands.iter().all(|(d, cp)| *d > best.0 + 1e-4 * size || dist3(*cp, best.1) < 1e-7 * size);
                                        if !unique {
                                            stats.bump("undetermined:near-probe-closest-point-not-unique");
                                            continue;
                                        }
                                        // a round trip is only defined where the chart is
                                        // one-to-one: a boundary vertex whose angles add up to
                                        // more than a full turn (an open fan rolled up) or a strip
                                        // curling back over itself lay out, isometrically, on top
                                        // of themselves. Not judged where another sheet of the
                                        // layout covers the chart position of the closest point.
                                        {
                                            let bc = bary_on_triangle(best.1, &posed.tri(fbest));
                                            let g = posed.f[fbest];
                                            let e = [
                                                l[g[0] as usize][0] * bc[0] + l[g[1] as usize][0] * bc[1] + l[g[2] as usize][0] * bc[2],
                                                l[g[0] as usize][1] * bc[0] + l[g[1] as usize][1] * bc[1] + l[g[2] as usize][1] * bc[2],
                                            ];
                                            let covered_twice = (0..posed.f.len()).any(|fi| {
                                                let h = posed.f[fi];
                                                in_triangle_2d(e, l[h[0] as usize], l[h[1] as usize], l[h[2] as usize], 1e-6 * size)
                                                    && dist3(closest_on_triangle(best.1, &posed.tri(fi)), best.1) > 1e-5 * size
                                            });
                                            if covered_twice {
                                                stats.bump("undetermined:near-probe-chart-covers-itself");
                                                continue;
                                            }
                                        }
                                        stats.bump("companion:uv-near-probe");
                                        match &o.near[qi] {
                                            None => {
                                                out.push(Violation::new("uv-round-trip", "Mesh::uv_with_tol", format!("near probe {} (face {}, bc {:?}) returned None although the mesh is {:.3e} away", qi, q.face, q.bc, best.0), &[vi]));
                                                break;
                                            }
                                            Some((_, None)) => {
                                                out.push(Violation::new("uv-round-trip", "Mesh::uv_to_3d", format!("near probe {}: uv_to_3d of the returned uv is None", qi), &[vi]));
                                                break;
                                            }
                                            Some((_, Some(back))) => {
                                                if dist3(*back, best.1) > 1e-5 * size {
                                                    out.push(Violation::new("uv-round-trip", "Mesh::uv_with_tol", format!("near probe {} (face {}, bc {:?}, offset {:?}): through UV and back gives {:?} but the closest surface point is {:?} ({:.3e} apart)", qi, q.face, q.bc, q.offset, back, best.1, dist3(*back, best.1)), &[vi]));
                                                    break;
                                                }
                                            }
                                        }
                                    }
                                }
                            }
                            for (qi, q) in sc.uv_queries.iter().enumerate() {
                                stats.bump("companion:uv-round-trip");
                                let t = posed.tri(q.face);
                                let p3 = add(add(scale(t[0], q.bc[0]), scale(t[1], q.bc[1])), scale(t[2], q.bc[2]));
                                let nrm = posed.normal(q.face).unwrap();
                                let tol = 1e-9 * size.max(norm(p3));
                                match &o.to_3d[qi] {
                                    None => {
                                        out.push(Violation::new("uv-round-trip", "Mesh::uv_to_3d", format!("query {} on face {} returned None", qi, q.face), &[vi]));
                                        break;
                                    }
                                    Some((p, n)) => {
                                        if dist3(*p, p3) > tol * 100.0 + 1e-6 * size || dist3(*n, nrm) > 1e-6 {
                                            out.push(Violation::new("uv-round-trip", "Mesh::uv_to_3d", format!("query {} on face {}: got point {:?} normal {:?}, expected {:?} {:?}", qi, q.face, p, n, p3, nrm), &[vi]));
                                            break;
                                        }
                                    }
                                }
                                if let Some(uv) = uv {
                                    let f = posed.f[q.face];
                                    let e2 = chart_apply(sc.chart, [
                                        uv[f[0] as usize][0] * q.bc[0] + uv[f[1] as usize][0] * q.bc[1] + uv[f[2] as usize][0] * q.bc[2],
                                        uv[f[0] as usize][1] * q.bc[0] + uv[f[1] as usize][1] * q.bc[1] + uv[f[2] as usize][1] * q.bc[2],
                                    ]);
                                    match &o.back[qi] {
                                        None => {
                                            out.push(Violation::new("uv-round-trip", "Mesh::uv_with_tol", format!("query {} on face {} (offset {}) returned None", qi, q.face, q.h), &[vi]));
                                            break;
                                        }
                                        Some((p, d)) => {
                                            let du = ((p[0] - e2[0]).powi(2) + (p[1] - e2[1]).powi(2)).sqrt();
                                            if du > 4e-6 * size || (d - q.h * size).abs() > 1e-6 * size {
                                                out.push(Violation::new("uv-round-trip", "Mesh::uv_with_tol", format!("query {} on face {}: uv off by {:.3e}, depth {} expected {}", qi, q.face, du, d, q.h * size), &[vi]));
                                                break;
                                            }
                                        }
                                    }
                                }
                            }
                        }
                    }
                }
                row.push(layout);
            }
            layouts.push(row);
        }
        if starts.len() > 1 {
            stats.bump("probe:boundary-start-differs-between-orders");
        }
        if sc.kind == Kind::Reject {
            stats.bump("reject:scenarios");
            return out;
        }
        // invariance (i): same decision vector, different pose
        for (vi, row) in layouts.iter().enumerate() {
            if let Some(Some(base)) = row.first() {
                for (pi, other) in row.iter().enumerate().skip(1) {
                    if let Some(o) = other {
                        stats.bump("invariance:same-decisions-other-pose");
                        let rho = procrustes_residual(&referenced(&sc.mesh, base), &referenced(&sc.mesh, o));
                        stats.max_f("same-decisions-other-pose:rho/size", rho / size);
                        if rho > 1e-8 * size {
                            out.push(Violation::new("pose-dependent-layout", flatten, format!("same decisions, pose 0 vs pose {}: layouts differ by {:.3e} after the best rigid motion (size {:.3e})", pi, rho, size), &[vi]));
                            break;
                        }
                    }
                }
            }
        }
        // invariance (ii)/(iii): different decision vectors, same pose
        let first: Option<(usize, &Vec<[f64; 2]>)> = layouts.iter().enumerate().find_map(|(vi, row)| row.first().and_then(|l| l.map(|l| (vi, l))));
        if let Some((v0, base)) = first {
            let posed0 = posed_mesh(sc, &sc.poses[0]);
            let delta = distortion(&posed0, base);
            stats.add(if delta > 1e-3 { "layouts:distorting-input" } else { "layouts:near-isometric-input" }, 1);
            for (vi, row) in layouts.iter().enumerate() {
                if vi == v0 {
                    continue;
                }
                if let Some(Some(o)) = row.first() {
                    stats.bump("invariance:other-decisions-same-pose");
                    let rho = procrustes_residual(&referenced(&sc.mesh, base), &referenced(&sc.mesh, o));
                    let dd = delta.max(distortion(&posed0, o));
                    stats.max_f(&format!("{:?}:other-decisions:rho/size", sc.kind), rho / size);
                    stats.max_f(&format!("{:?}:other-decisions:rho/(size*(distortion+1e-4))", sc.kind), rho / (size * (dd + 1e-4)));
                    match sc.kind {
                        Kind::Planar => stats.max_f("planar:other-decisions:rho/lmax", rho / lmax),
                        _ if dd > 1e-3 => stats.max_f("curved(distortion>1e-3):other-decisions:rho/(distortion*size)", rho / (dd * size)),
                        _ => stats.max_f("curved(distortion<=1e-3):other-decisions:rho/lmax", rho / lmax),
                    }
                    // One bound for planar and curved input: three orders of magnitude above the
                    // numerical scatter measured for start-invariant behaviour (3.4e-5 x size on
                    // planar disks, where the 1e-8 regularisation is the floor).
                    let bound = 1e-3 * size;
                    if rho > bound {
                        out.push(Violation::new(
                            "order-dependent-layout",
                            flatten,
                            format!("decision vectors {} and {}: layouts differ by {:.3e} after the best rigid motion (bound {:.3e}, distortion {:.3e}, size {:.3e})", v0, vi, rho, bound, delta, size),
                            &[v0, vi],
                        ));
                        break;
                    }
                }
            }
        }
        out
    }

    fn raw_digest(&self, obs: &Obs) -> Digest {
        let mut d = Digest::new();
        for p in &obs.poses {
            if let OpResult::Done(Ok((n, s))) = &p.edges {
                d.u64(*n as u64);
                d.u64(s.map(|x| x as u64 + 1).unwrap_or(0));
            }
        }
        d
    }

    fn shrink(&self, sc: &Sc) -> Vec<Sc> {
        let mut out = Vec::new();
        // fewer poses / identity poses
        if sc.poses.len() > 1 {
            for k in 0..sc.poses.len() {
                let mut p = sc.poses.clone();
                p.remove(k);
                out.push(Sc { poses: p, ..sc.clone() });
            }
        }
        for k in 0..sc.poses.len() {
            if sc.poses[k] != Pose::identity() {
                let mut p = sc.poses.clone();
                p[k] = Pose::identity();
                out.push(Sc { poses: p, ..sc.clone() });
            }
        }
        if !sc.near_queries.is_empty() {
            out.push(Sc { near_queries: vec![], ..sc.clone() });
            for q in chunk_removals(&sc.near_queries, 1).into_iter().take(8) {
                out.push(Sc { near_queries: q, ..sc.clone() });
            }
        }
        if !sc.uv_queries.is_empty() {
            out.push(Sc { uv_queries: vec![], ..sc.clone() });
            for q in chunk_removals(&sc.uv_queries, 1).into_iter().take(8) {
                out.push(Sc { uv_queries: q, ..sc.clone() });
            }
        }
        // fewer faces, staying inside the scenario's class (disk stays a disk): chunks first, then
        // single faces that own a boundary edge ("ears"), which is what keeps a disk a disk
        let idx: Vec<usize> = (0..sc.mesh.f.len()).collect();
        let mut keeps: Vec<Vec<usize>> = chunk_removals(&idx, 1).into_iter().take(60).collect();
        if sc.mesh.f.len() > 1 {
            let counts = sc.mesh.edge_counts();
            let ears: Vec<usize> = (0..sc.mesh.f.len())
                .filter(|&i| {
                    let f = sc.mesh.f[i];
                    (0..3).any(|k| counts[&ekey(f[k], f[(k + 1) % 3])] == 1)
                })
                .take(60)
                .collect();
            for e in ears {
                keeps.push(idx.iter().copied().filter(|&i| i != e).collect());
            }
        }
        for keep in keeps {
            let m = M { v: sc.mesh.v.clone(), f: keep.iter().map(|&i| sc.mesh.f[i]).collect() }.compact();
            let ok = match sc.kind {
                Kind::Reject => !is_disk(&m),
                _ => is_disk(&m),
            };
            if !ok {
                continue;
            }
            // uv queries refer to faces: keep only the ones that survive
            let map: std::collections::BTreeMap<usize, usize> = keep.iter().enumerate().map(|(n, &o)| (o, n)).collect();
            let uvq = sc.uv_queries.iter().filter_map(|q| map.get(&q.face).map(|&f| UvQuery { face: f, ..q.clone() })).collect();
            let nq = sc.near_queries.iter().filter_map(|q| map.get(&q.face).map(|&f| NearQuery { face: f, ..q.clone() })).collect();
            out.push(Sc { mesh: m, uv_queries: uvq, near_queries: nq, ..sc.clone() });
        }
        out
    }

    fn valid(&self, sc: &Sc) -> bool {
        let faces_ok = !sc.mesh.f.is_empty() && (0..sc.mesh.f.len()).all(|i| sc.mesh.area(i) > 1e-13);
        let class_ok = match sc.kind {
            Kind::Reject => !is_disk(&sc.mesh),
            _ => is_disk(&sc.mesh),
        };
        faces_ok
            && class_ok
            && !sc.poses.is_empty()
            && sc.uv_queries.iter().all(|q| q.face < sc.mesh.f.len())
            && sc.near_queries.iter().all(|q| q.face < sc.mesh.f.len())
    }

    fn fingerprints(&self, sc: &Sc, _v: &Violation) -> Vec<String> {
        vec![format!("kind:{:?}", sc.kind), format!("label:{}", sc.label)]
    }

    fn nontrivial(&self, sc: &Sc) -> bool {
        sc.mesh.f.len() >= 2
    }

    fn rule(&self) -> String {
        "one case = (scenario, consumed decision vector). Scenarios: planar triangulated disks (fans, strips, rectangles, non-convex outlines grown cell by cell; jittered vertices, alternating or random diagonals; random vertex renumbering, face order and index-triple rotation) in 2-3 rigid 3-D poses (translations up to 1000x the mesh size); curved disks (height fields, spherical caps, rolled sheets) for the invariance clause; closed surfaces, tubes, plates with holes, an edge in three faces and two disks sharing a vertex for the rejection clause. Each scenario runs under several decision vectors (hash policy per container; the boundary-loop queue decides which vertex the boundary starts at), and every pose of a vector is re-run under exactly the same decisions (Sim::rewind). Non-trivial = at least two faces and at least one decision consumed; distinct = distinct digest of (scenario JSON, consumed decisions).".into()
    }

    fn components(&self) -> serde_json::Value {
        json!({
            "real": ["engeom Mesh::calc_edges, MeshEdges::boundary_first_flatten (cotangent Laplacian, Dirichlet boundary, best-fit curve, harmonic extension)", "faer sparse LU and dense kernels on the sequential path", "engeom UvMapping, Mesh::{new_with_uv, uv_to_3d, uv_with_tol}", "parry2d/3d TriMesh projection"],
            "replaced_by_simulator": ["std RandomState keys (iteration order of every hash container on the path, in particular the boundary-loop start)"],
            "stubbed": ["faer's rayon thread pool: faer::set_global_parallelism(Par::Seq)"]
        })
    }

    fn assumptions(&self) -> Vec<String> {
        vec![
            "independence from faer's thread count and schedule is not decided (pool stubbed by Par::Seq)".into(),
            "isometry tolerance 1e-3 of the longest edge (the 1e-8 diagonal regularisation of the Laplacian is the measured floor at 1e-8..2e-5)".into(),
            "curved disks: layouts under different hash orders may differ by up to 0.05 x (max relative edge distortion) x size, the measured discretisation scatter being ~2e-3 x distortion x size".into(),
            "rejection clause quantified over the listed families only: closed, several boundaries, non-manifold edge, vertex-only contact".into(),
        ]
    }
}

/// Barycentric coordinates of a point of the plane of a 3-D triangle (least squares otherwise).
fn bary_on_triangle(p: [f64; 3], t: &[[f64; 3]; 3]) -> [f64; 3] {
    let (e0, e1, w) = (sub(t[1], t[0]), sub(t[2], t[0]), sub(p, t[0]));
    let (d00, d01, d11, d20, d21) = (dot(e0, e0), dot(e0, e1), dot(e1, e1), dot(w, e0), dot(w, e1));
    let den = d00 * d11 - d01 * d01;
    if den.abs() < 1e-300 {
        return [1.0, 0.0, 0.0];
    }
    let v = (d11 * d20 - d01 * d21) / den;
    let u = (d00 * d21 - d01 * d20) / den;
    [1.0 - v - u, v, u]
}

/// Is `e` inside the 2-D triangle (either orientation) or within `margin` of it?
fn in_triangle_2d(e: [f64; 2], a: [f64; 2], b: [f64; 2], c: [f64; 2], margin: f64) -> bool {
    let area = (b[0] - a[0]) * (c[1] - a[1]) - (b[1] - a[1]) * (c[0] - a[0]);
    if area == 0.0 {
        return false;
    }
    let s = area.signum();
    for (p, q) in [(a, b), (b, c), (c, a)] {
        let (dx, dy) = (q[0] - p[0], q[1] - p[1]);
        let len = (dx * dx + dy * dy).sqrt();
        if len == 0.0 {
            return false;
        }
        if s * (dx * (e[1] - p[1]) - dy * (e[0] - p[0])) / len < -margin {
            return false;
        }
    }
    true
}
