#!/bin/bash
# usage: tools/confirm_seeded.sh <worktree> <id>
# Confirms a sub-agent's seeded change in its scratch worktree: patch.diff is exactly the src change,
# the existing suite (242 unit + 140 doc) passes with it, the demonstration fails with it and passes
# without it. On success copies patch.diff, the demonstration and NOTES.md to /verif/seeded/<id>/.
WT="$1"; ID="$2"
export CARGO_NET_OFFLINE=true
cd "$WT" || exit 2
R=/tmp/confirm-$ID.txt; : > $R
git diff -- src > /tmp/cur-$ID.diff
if ! diff -q <(grep -v '^index ' /tmp/cur-$ID.diff) <(grep -v '^index ' patch.diff) >/dev/null; then echo "patch.diff differs from the src change" >> $R; fi
git status --short | grep -v '^??' | grep -v ' src/' >> $R && echo "^ unexpected modified files" >> $R
lib=$(cargo test --offline --lib 2>&1 | grep -E "^test result" | head -1); echo "with-change lib: $lib" >> $R
doc=$(cargo test --offline --doc 2>&1 | grep -E "^test result" | head -1); echo "with-change doc: $doc" >> $R
cargo test --offline --test seeded_demo > /tmp/demo-with-$ID.log 2>&1; rc_with=$?
echo "with-change demo rc=$rc_with: $(grep -E '^test result' /tmp/demo-with-$ID.log | head -1)" >> $R
git apply -R patch.diff || { echo "cannot reverse patch" >> $R; exit 2; }
cargo test --offline --test seeded_demo > /tmp/demo-without-$ID.log 2>&1; rc_without=$?
echo "without-change demo rc=$rc_without: $(grep -E '^test result' /tmp/demo-without-$ID.log | head -1)" >> $R
git apply patch.diff
ok=1
echo "$lib" | grep -q "242 passed; 0 failed" || ok=0
echo "$doc" | grep -q "140 passed; 0 failed" || ok=0
[ $rc_with -ne 0 ] || ok=0
[ $rc_without -eq 0 ] || ok=0
echo "CONFIRMED=$ok" >> $R
if [ $ok -eq 1 ]; then
  mkdir -p /verif/seeded/$ID
  cp patch.diff /verif/seeded/$ID/patch.diff
  cp tests/seeded_demo.rs /verif/seeded/$ID/seeded_demo.rs
  cp NOTES.md /verif/seeded/$ID/NOTES.md 2>/dev/null
fi
rm -rf "$WT/target"
cat $R
