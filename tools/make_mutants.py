#!/usr/bin/env python3
"""Hand-made property-breaking edits (sensitivity mutants). Each is produced as a patch against
/repo's HEAD by textual substitution in a scratch copy of the file; nothing is left applied.
Usage: tools/make_mutants.py   (writes /verif/mutants/<name>.diff and mutants/index.json)"""
import json, os, subprocess, sys
REPO = "/repo"
OUT = "/verif/mutants"

# name, property expected to fire, file, old, new, note
M = [
 ("c12_loops_keep_exhausted_start", ["C12"], "src/geom3/mesh/edges.rs",
  "                queue.remove(&last_id);\n", "",
  "exhausted start vertex never retired: boundary_loops does not terminate"),
 ("c12_loops_first_successor_only", ["C12"], "src/geom3/mesh/edges.rs",
  "                None => {\n                    take_unused(&mut incoming, last_id, &mut used).map(|i| boundary_edges[i][0])\n                }",
  "                None => None,",
  "walk only along outgoing edges: loops are lost on inconsistently wound meshes"),
 ("c12_patches_directed_lookup", ["C12"], "src/geom3/mesh/patches.rs",
  "                .entry(make_sym(&edge_key(k, face)))", "                .entry(edge_key(k, face))",
  "edge table keyed by directed edge again, looked up by undirected key"),
 ("c12_voxel_half_neighbourhood", ["C12"], "src/raster3.rs",
  "            for x in -1..=1 {", "            for x in 0..=1 {",
  "only +x neighbours visited"),
 ("c12_voxel_face_neighbours_only", ["C12"], "src/raster3.rs",
  "                        if x == 0 && y == 0 && z == 0 {", "                        if (x != 0) as i32 + (y != 0) as i32 + (z != 0) as i32 != 1 {",
  "6-neighbourhood instead of 26: diagonal contacts split clusters"),
 ("c12_chain_remove_wrong_index", ["C12"], "src/common/indices.rs",
  "                working.insert(0, indices[i][0]);\n                pairs.swap_remove(k);",
  "                working.insert(0, indices[i][0]);\n                pairs.swap_remove(0);",
  "backward extension removes the wrong pending pair"),
 ("c12_chain_ambiguous_takes_first", ["C12"], "src/common/indices.rs",
  "    if candidates.len() == 1 {", "    if !candidates.is_empty() {",
  "branching no longer stops a chain (still exactly-once on branching input, the only place where it differs): expected silent"),
 ("c12_cylinder_winding", ["C12"], "src/geom3/mesh.rs",
  "            faces.push([(i * 2) as u32, (k * 2 + 1) as u32, (i * 2 + 1) as u32]);",
  "            faces.push([(i * 2) as u32, (i * 2 + 1) as u32, (k * 2 + 1) as u32]);",
  "re-introduces the cylinder winding defect"),
 ("c12_edge_length_first_vertex_twice", ["C12"], "src/geom3/mesh/edges.rs",
  "                let v1 = mesh.vertices()[edge[1] as usize];", "                let v1 = mesh.vertices()[edge[1].max(edge[0]) as usize];",
  "harmless rewrite (edge[1] >= edge[0] always for sorted keys): expected silent"),
 ("c12_loops_not_reversed", ["C20"], "src/geom3/mesh/edges.rs",
  "                closed.reverse();\n", "",
  "loop orientation flipped: C12 must stay silent (orientation not stated), C20 must fire"),
 ("c14_keep_acts_as_remove", ["C14"], "src/geom3/mesh/filtering.rs",
  "                self.indices.retain(|i| check_set.contains(i));", "                self.indices.retain(|i| !check_set.contains(i));",
  "near_mesh Keep removes the passing faces"),
 ("c14_add_tests_selected", ["C14"], "src/geom3/mesh/filtering.rs",
  "                .filter(|i| !self.indices.contains(i))", "                .filter(|i| self.indices.contains(i))",
  "near_mesh Add evaluates the already selected faces"),
 ("c14_facing_remove_is_keep", ["C14"], "src/geom3/mesh/filtering.rs",
  "                self.indices.retain(|&i| !predicate(i, self.mesh));", "                self.indices.retain(|&i| predicate(i, self.mesh));",
  "facing Remove keeps instead"),
 ("c14_angle_cached_again", ["C14"], "src/geom3/mesh/filtering.rs",
  "            (Some(angle_tol), Some(face_normal)) => face_normal.angle(&rn) <= angle_tol,",
  "            (Some(angle_tol), Some(face_normal)) => {\n                let ok = face_normal.angle(&rn) <= angle_tol;\n                if !ok {\n                    self.checked.insert(vertex_index, None);\n                }\n                ok\n            }",
  "a failed angle test poisons the vertex for later faces (order dependent)"),
 ("c14_any_mode_short_circuit_wrong", ["C14"], "src/geom3/mesh/filtering.rs",
  "                        || check.near_check(tri[2], face.normal())\n", "",
  "any-vertex mode ignores the third vertex"),
 ("c14_create_mesh_swaps_winding", ["C14"], "src/geom3/mesh/filtering.rs",
  "                [map_back[&t[0]], map_back[&t[1]], map_back[&t[2]]]", "                [map_back[&t[0]], map_back[&t[2]], map_back[&t[1]]]",
  "created mesh has flipped winding"),
 ("c15_within_radius_not_squared", ["C15"], "src/common/kd_tree.rs",
  "        self.items_within(&point.coords.into(), radius * radius)", "        self.items_within(&point.coords.into(), radius)",
  "within() passes the radius where the squared radius is expected"),
 ("c15_poisson_mask_self_only", ["C15"], "src/common/poisson_disk.rs",
  "            mask[w.0] = false;", "            mask[m] = false;",
  "sweep masks only the visited point"),
 ("c15_barycentric_not_normalised", ["C15"], "src/geom3/mesh/sampling.rs",
  "            let b = r1.sqrt() * (1.0 - r2);", "            let b = r1.sqrt() * r2;",
  "weights no longer sum to one: samples leave the triangle plane region"),
 ("c15_cumulative_area_before_add", ["C15"], "src/geom3/mesh/sampling.rs",
  "            total_area += tri.area();\n            cumulative_areas.push(total_area);", "            cumulative_areas.push(total_area);\n            total_area += tri.area();",
  "cumulative table shifted by one face: wrong proportions, last face over-weighted"),
 ("c15_partial_within_no_remap", ["C15"], "src/common/kd_tree.rs",
  "        let result = self.tree.within(point, radius);\n        result\n            .iter()\n            .map(|(i, d)| (self.index_map[*i], *d))",
  "        let result = self.tree.within(point, radius);\n        result\n            .iter()\n            .map(|(i, d)| (*i, *d))",
  "PartialKdTree::within returns tree-local indices"),
 ("c15_order_direction_sign", ["C15"], "src/geom2/hull.rs",
  "    if d_sum > 0 {", "    if d_sum < 0 {",
  "order direction inverted"),
 ("c15_kd_use_kiddo_within", ["C15"], "src/common/kd_tree.rs",
  "        self.items_within(&point.coords.into(), radius * radius)",
  "        self.tree\n            .within::<SquaredEuclidean>(&point.coords.into(), radius * radius)\n            .iter()\n            .map(|r| (r.item, r.distance.sqrt()))\n            .collect::<Vec<_>>()",
  "re-introduces the kiddo oversize-leaf defect in within()"),
 ("c15_uniform_area_draw_scaled_late", ["C15"], "src/geom3/mesh/sampling.rs",
  "                .unwrap_or_else(|i| i);", "                .unwrap_or_else(|i| i.saturating_sub(0)).min(cumulative_areas.len() - 1);",
  "harmless clamp: expected silent"),
 ("c15_nearest_bound_next_up", ["C15"], "src/common/kd_tree.rs",
  "        let bound = (last.distance * (1.0 + 1e-12)).max(f64::MIN_POSITIVE);", "        let bound = last.distance.next_up();",
  "re-introduces the one-ulp bound of the first k-nearest repair: neighbours tied at the k-th distance are lost when kiddo prunes with its incrementally rounded plane distance; about 1 in 40 000 thorough runs, reached by the thorough tier only"),
 ("c15_nearest_bound_zero_distance", ["C15"], "src/common/kd_tree.rs",
  "        let bound = (last.distance * (1.0 + 1e-12)).max(f64::MIN_POSITIVE);", "        let bound = last.distance * (1.0 + 1e-12);",
  "bound collapses to zero when the k-th neighbour is at distance zero"),
 ("c15_exact_breakpoint_goes_to_next_face", ["C15"], "src/geom3/mesh/sampling.rs",
  "                .unwrap_or_else(|i| i);", "                .map_or_else(|i| i, |i| i + 1);",
  "harmless: a draw landing exactly on an interior breakpoint picks the next face (measure zero, still on the surface); the last breakpoint cannot be hit because r < 1: expected silent although injected Boundary words reach the branch"),
 ("c15_barycentric_divides_by_sqrt_r1", ["C15"], "src/geom3/mesh/sampling.rs",
  "            let c = r1.sqrt() * r2;", "            let c = r1 * r2 / r1.sqrt();",
  "algebraically the same weight, NaN when the draw is exactly 0.0: only an injected Zero word reaches it"),
 ("c20_best_fit_no_roll", ["C20"], "src/geom3/mesh/conformal.rs",
  "        let insert_i = ((i + col0.len()) - 1) % col0.len();", "        let insert_i = i;",
  "boundary positions shifted by one vertex"),
 ("c20_extend_h_prev_next_swapped", ["C20"], "src/geom3/mesh/conformal.rs",
  "        h[(i_all as usize, 0)] = 0.5 * (uvb[(i_b_prev, 0)] - uvb[(i_b_next, 0)]);", "        h[(i_all as usize, 0)] = 0.5 * (uvb[(i_b_next, 0)] - uvb[(i_b_prev, 0)]);",
  "conjugate has the wrong sign: triangles fold"),
 ("c20_angle_defect_index_permuted", ["C20"], "src/geom3/mesh/conformal.rs",
  "        thetas[face[0] as usize] -= angles[0];\n        thetas[face[1] as usize] -= angles[1];", "        thetas[face[0] as usize] -= angles[1];\n        thetas[face[1] as usize] -= angles[0];",
  "angle defects use the wrong corner"),
 ("c20_cotan_half_dropped", ["C20"], "src/geom3/mesh/conformal.rs",
  "        *value *= 0.5;", "        *value *= 1.0;",
  "cotangent weights doubled (uniform scaling of the Laplacian): layout unchanged? measured"),
 ("c20_uv_nonsolid_again", ["C20"], "src/geom3/mesh/uv_mapping.rs",
  "        let (prj, (t_id, _)) = self.tri_map.project_local_point_and_get_location(point, true);", "        let (prj, (t_id, _)) = self.tri_map.project_local_point_and_get_location(point, false);",
  "re-introduces the UV edge-projection defect"),
 ("c20_loop_start_hash_order", ["C20"], "src/geom3/mesh/edges.rs",
  "    let mut queue: BTreeSet<u32> = boundary_edges.iter().map(|e| e[0]).collect();\n    let mut all_loops = Vec::new();\n\n    while let Some(&start_id) = queue.first() {",
  "    let mut queue: HashMap<u32, ()> = boundary_edges.iter().map(|e| (e[0], ())).collect();\n    let mut all_loops = Vec::new();\n\n    while let Some(&start_id) = queue.keys().next() {",
  "re-introduces the hash-order dependent boundary start"),
 ("c20_inner_vertices_skip_last", ["C20"], "src/geom3/mesh/conformal.rs",
  "    let inner: Vec<u32> = (0..mesh.vertices().len() as u32)", "    let inner: Vec<u32> = (0..(mesh.vertices().len() as u32).saturating_sub(0))",
  "harmless: expected silent"),
 ("c20_single_loop_check_dropped", ["C20"], "src/geom3/mesh/conformal.rs",
  "        if self.boundary_loops.len() != 1 {", "        if self.boundary_loops.is_empty() {",
  "meshes with several boundaries are no longer rejected"),
]

def main():
    os.makedirs(OUT, exist_ok=True)
    index = []
    subprocess.check_call(["git", "-C", REPO, "diff", "--quiet"])  # tree must be clean
    for name, props, path, old, new, note in M:
        full = os.path.join(REPO, path)
        src = open(full).read()
        if src.count(old) != 1:
            print("SKIP %s: pattern occurs %d times in %s" % (name, src.count(old), path)); continue
        open(full, "w").write(src.replace(old, new))
        try:
            diff = subprocess.check_output(["git", "-C", REPO, "diff", "--", path]).decode()
        finally:
            open(full, "w").write(src)
        open(os.path.join(OUT, name + ".diff"), "w").write(diff)
        index.append({"name": name, "expected_to_fire": props, "file": path, "note": note,
                      "expected_silent": "expected silent" in note or "harmless" in note,
                      "thorough_only": "thorough tier only" in note})
    # reverts of `fix:` commits that are kept as plain diffs (git -C /repo diff <fix> <fix>^ -- src)
    index.append({"name": "c20_laplacian_shift_again", "expected_to_fire": ["C20"], "file": "src/geom3/mesh/conformal.rs",
                  "note": "revert of 00aafb6: the Laplacian diagonal is shifted by 1e-8 again", "expected_silent": False, "thorough_only": False})
    json.dump(index, open(os.path.join(OUT, "index.json"), "w"), indent=1)
    print("wrote", len(index), "mutants")
    subprocess.check_call(["git", "-C", REPO, "diff", "--quiet"])

main()
