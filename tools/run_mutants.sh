#!/bin/bash
# usage: tools/run_mutants.sh <out.json> <patch>...
# Sensitivity runs in a scratch copy (never in /repo or /verif): a git worktree of /repo's HEAD and a
# copy of /verif's committed+working files whose simulator depends on that worktree. For each patch:
# apply, run the quick tier of the expected properties (mutants/index.json, or all four for patches
# not listed there), replay every reported violation, revert. The scratch copy is removed at the end.
OUT="$(realpath -m "$1")"; shift
PATCHES=(); for p in "$@"; do PATCHES+=("$(realpath "$p")"); done
SCR=$(mktemp -d /tmp/mut-XXXXXX)
git -C /repo worktree add -q --detach "$SCR/repo" HEAD || exit 2
mkdir -p "$SCR/verif"
rsync -a --exclude sim/target --exclude .git --exclude replays --exclude evidence "${VERIF_SRC:-/verif}/" "$SCR/verif/"
sed -i "s|path = \"/repo\"|path = \"$SCR/repo\"|" "$SCR/verif/sim/Cargo.toml"
cd "$SCR/verif"
echo "[" > "$OUT"; first=1
for patch in "${PATCHES[@]}"; do
  name=$(basename "$patch" .diff)
  [ "$name" = "patch" ] && name=$(basename "$(dirname "$patch")")
  props=$(python3 - "$name" <<'PY'
import json,sys
try:
    idx={m['name']:m for m in json.load(open('/verif/mutants/index.json'))}
except Exception: idx={}
m=idx.get(sys.argv[1])
if m is None: print("C12 C14 C15 C20")
else:
    p=list(m['expected_to_fire'])
    if m['name']=='c12_loops_not_reversed': p=['C12']+p
    print(" ".join(p))
PY
)
  [ -n "${MUT_PROPS:-}" ] && props="$MUT_PROPS"
  if ! git -C "$SCR/repo" apply "$patch"; then echo "cannot apply $patch"; continue; fi
  for P in $props; do
    t0=$(date +%s.%N)
    log=$(./check $P --tier quick --no-evidence ${MUT_RUNS:+--runs $MUT_RUNS} 2>&1); rc=$?
    t1=$(date +%s.%N)
    vline=$(echo "$log" | grep "^VIOLATION" | head -1)
    cls=$(echo "$log" | grep "^violation class=" | head -1 | cut -c1-400)
    kinds=$(echo "$log" | grep "violating runs by kind" | sed 's/.*kind: //' | tr '\n' ';')
    replayed=""
    if [ -n "$vline" ]; then
      rp=$(echo "$vline" | sed 's/.*replay=//')
      rlog=$(./check $P --replay "$rp" 2>&1)
      replayed=$(echo "$rlog" | grep -o "reproduced=[a-z]*" | head -1)
    fi
    [ $first -eq 0 ] && echo "," >> "$OUT"; first=0
    python3 - "$name" "$P" "$rc" "$cls" "$replayed" "$(echo "$t1 - $t0" | bc)" "$kinds" >> "$OUT" <<'PY'
import json,sys
print(json.dumps({"mutant":sys.argv[1],"property":sys.argv[2],"exit":int(sys.argv[3]),"violation":sys.argv[4],"replay":sys.argv[5],"wall_s":float(sys.argv[6]),"kinds":sys.argv[7]}))
PY
    echo "$name $P rc=$rc $replayed $(echo "$cls" | cut -c1-140)"
    [ $rc -eq 2 ] && echo "$log" | tail -15
  done
  git -C "$SCR/repo" checkout -- .
done
echo "]" >> "$OUT"
cd /
git -C /repo worktree remove --force "$SCR/repo"
rm -rf "$SCR"
echo "scratch removed"
