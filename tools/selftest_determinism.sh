#!/bin/bash
# Determinism self-test: the event-log digest of a batch (every decision site, value, operation
# outcome, raw output and verdict of every run, folded per run index) must not depend on the
# execution, the process, or the number of worker threads. Separate processes throughout.
# usage: tools/selftest_determinism.sh [runs-per-batch]   exit 0 = identical everywhere
cd /verif
RUNS=${1:-2000}
BIN=sim/target/release/engeom-sim
(cd sim && CARGO_NET_OFFLINE=true cargo build --release --offline >/dev/null 2>&1) || { echo "build failed"; exit 2; }
fail=0
for P in C12 C14 C15 C20; do
  for SEED in 1 7 20261003; do
    ref=""
    for W in 1 4 16; do
      for REP in a b; do
        d=$($BIN $P --tier quick --seed $SEED --runs $RUNS --workers $W --no-evidence --verif-dir /verif | grep -o "log_digest=[0-9a-f]*")
        [ -z "$ref" ] && ref="$d"
        if [ "$d" != "$ref" ]; then echo "MISMATCH $P seed=$SEED workers=$W rep=$REP: $d vs $ref"; fail=1; fi
      done
    done
    echo "$P seed=$SEED runs=$RUNS workers{1,4,16}x2: $ref"
  done
done
[ $fail -eq 0 ] && echo "determinism: OK" || echo "determinism: FAILED"
exit $fail
