#!/bin/bash
# Zero-alarm acceptance: the quick (or given) tier of every check under many master seeds on the
# current tree; evidence files untouched. usage: tools/seed_sweep.sh [first] [last] [tier]
cd "$(dirname "$0")/.."
A=${1:-1}; B=${2:-20}; T=${3:-quick}
bad=0
for S in $(seq $A $B); do
  for P in C12 C14 C15 C20; do
    out=$(./check $P --tier $T --seed $S --no-evidence 2>&1); rc=$?
    echo "seed=$S $P rc=$rc $(echo "$out" | grep -E '^summary' | sed -E 's/.*(runs=[0-9]+).*(violating_runs=[0-9]+).*(wall_s=[0-9.]+)/\1 \2 \3/') $(echo "$out" | grep -c '^KNOWN-FINDING') known"
    if [ $rc -ne 0 ]; then bad=1; echo "$out" | grep -E "^violation|^VIOLATION|HARNESS" ; fi
  done
done
[ $bad -eq 0 ] && echo "seed sweep $A..$B tier=$T: no alarm" || echo "seed sweep: ALARM"
exit $bad
