#!/bin/bash
# usage: tools/run_seeded.sh <id>...   Runs the registered quick check of the property a seeded change
# breaks against /repo with the change applied (git -C /repo apply), replays the reported violation,
# and undoes the change straight afterwards (git -C /repo checkout -- .). Results: seeded/<id>/result.json
cd /verif
git -C /repo diff --quiet || { echo "/repo is not clean"; exit 2; }
for id in "$@"; do
  P=$(echo "$id" | sed -E 's/^c([0-9]+).*/C\1/')
  git -C /repo apply /verif/seeded/$id/patch.diff || { echo "$id: cannot apply"; continue; }
  log=$(./check $P --tier quick --no-evidence 2>&1); rc=$?
  vline=$(echo "$log" | grep "^VIOLATION" | head -1)
  cls=$(echo "$log" | grep "^violation class=" | head -1 | cut -c1-500)
  summ=$(echo "$log" | grep "^summary" | head -1)
  replayed=""
  if [ -n "$vline" ]; then
    rp=$(echo "$vline" | sed 's/.*replay=//')
    replayed=$(./check $P --replay "$rp" 2>&1 | grep -o "reproduced=[a-z]*" | head -1)
    cp "$rp" /verif/seeded/$id/replay.json
  fi
  git -C /repo checkout -- .
  python3 - "$id" "$P" "$rc" "$cls" "$replayed" "$summ" > /verif/seeded/$id/result.json <<'PY'
import json,sys
print(json.dumps({"seeded":sys.argv[1],"property":sys.argv[2],"check":"./check %s --tier quick"%sys.argv[2],"exit":int(sys.argv[3]),"detected":int(sys.argv[3])==1,"violation":sys.argv[4],"replay":sys.argv[5],"summary":sys.argv[6]},indent=1))
PY
  echo "$id $P rc=$rc $replayed :: $(echo "$cls" | cut -c1-200)"
done
git -C /repo diff --quiet && echo "/repo clean"
