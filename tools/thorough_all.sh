#!/bin/bash
# Builds the simulator once against /repo as it is now, then runs the thorough tier of all four
# checks with that binary (so later edits to /repo do not leak into a running sweep). Evidence
# files are not touched. usage: tools/thorough_all.sh [seed]
cd "$(dirname "$0")/.."
SEED=${1:-1}
(cd sim && CARGO_NET_OFFLINE=true cargo build --release --offline >/dev/null 2>&1) || { echo "build failed"; exit 2; }
cp sim/target/release/engeom-sim ./engeom-sim.thorough
rc=0
for P in C14 C15 C20 C12; do
  /usr/bin/time -f "$P wall=%es maxrss=%MKB" ./engeom-sim.thorough $P --tier thorough --seed $SEED --no-evidence --verif-dir "$(pwd)" | grep -E "^summary|^KNOWN|^violation|^VIOLATION|HARNESS" | cut -c1-400
  [ ${PIPESTATUS[0]} -ne 0 ] && rc=1
done
rm -f ./engeom-sim.thorough
exit $rc
