#!/bin/bash
# Every minimised replay kept under seeded/ was produced with a property-breaking change applied.
# On the tree without that change the same scenario and decisions must NOT violate the property:
# otherwise the minimiser left the property's domain (or the tree has regressed).
cd "$(dirname "$0")/.."
bad=0
for f in seeded/*/replay.json; do
  id=$(basename "$(dirname "$f")"); P=$(echo "$id" | sed -E 's/^c([0-9]+).*/C\1/')
  out=$(./check $P --replay "$f" 2>&1); rc=$?
  if [ $rc -ne 0 ]; then echo "$id: replay violates on the clean tree: $(echo "$out" | grep -E 'REPLAY|message' | head -2 | tr '\n' ' ' | cut -c1-200)"; bad=1; fi
done
[ $bad -eq 0 ] && echo "all seeded replays pass on the clean tree"
exit $bad
