#!/bin/bash
# Regression suite of the checker itself (runs in a scratch copy, /repo untouched): every hand-made
# property-breaking edit and every seeded change must be reported by the quick tier of its property
# with a replay that reproduces; every edit marked harmless and every property-preserving refactor
# under refactors/ must stay silent.
# usage: tools/regress.sh [out.json]
cd "$(dirname "$0")/.."
OUT=${1:-/tmp/regress.json}
tools/run_mutants.sh "$OUT.mutants" mutants/*.diff > "$OUT.mutants.log" 2>&1
: > "$OUT.seeded.log"
for d in seeded/*/; do
  id=$(basename "$d"); P=$(echo "$id" | sed -E 's/^c([0-9]+).*/C\1/')
  MUT_PROPS=$P tools/run_mutants.sh "$OUT.seeded.$id" "$d/patch.diff" >> "$OUT.seeded.log" 2>&1
done
MUT_PROPS="C12 C20" tools/run_mutants.sh "$OUT.refactors.r12" refactors/?12_refactor_*.diff > "$OUT.refactors.log" 2>&1
MUT_PROPS="C14" tools/run_mutants.sh "$OUT.refactors.r14" refactors/?14_refactor_*.diff >> "$OUT.refactors.log" 2>&1
MUT_PROPS="C15" tools/run_mutants.sh "$OUT.refactors.r15" refactors/?15_refactor_*.diff >> "$OUT.refactors.log" 2>&1
MUT_PROPS="C20 C12" tools/run_mutants.sh "$OUT.refactors.r20" refactors/?20_refactor_*.diff >> "$OUT.refactors.log" 2>&1
python3 - "$OUT" <<'PY'
import json,sys,glob
out=sys.argv[1]
idx={m['name']:m for m in json.load(open('mutants/index.json'))}
bad=0; n=0
for r in json.load(open(out+'.mutants')):
    m=idx[r['mutant']]; n+=1
    expect = (r['property'] in m['expected_to_fire']) and not m['expected_silent'] and not m.get('thorough_only')
    got = r['exit']==1 and r['replay']=='reproduced=true'
    if r['exit']==2: print("HARNESS ERROR", r['mutant'], r['property']); bad+=1
    elif expect and not got: print("MISSED", r['mutant'], r['property']); bad+=1
    elif not expect and r['exit']!=0: print("UNEXPECTED ALARM", r['mutant'], r['property'], r['violation'][:120]); bad+=1
for f in sorted(glob.glob(out+'.seeded.c*')):
    if f.endswith('.log'): continue
    for r in json.load(open(f)):
        n+=1
        meta=json.load(open('seeded/%s/meta.json'%r['mutant']))
        expect=meta['ran']['detected']
        got=(r['exit']==1 and r['replay']=='reproduced=true')
        if expect and not got: print("MISSED seeded", r['mutant'], r['property'], r['exit']); bad+=1
        if not expect and r['exit']!=0: print("NOTE: seeded change recorded as missed is now reported", r['mutant'], r['violation'][:120])
for f in sorted(glob.glob(out+'.refactors.r*')):
    for r in json.load(open(f)):
        n+=1
        if r['exit']!=0: print("FALSE ALARM on a correct refactor", r['mutant'], r['property'], r['violation'][:160]); bad+=1
print("regress: %d runs, %d problems"%(n,bad))
sys.exit(1 if bad else 0)
PY
